"""Event collector, counters, three-valued verdict plumbing (in-shard side).

One ``Collector`` per shard process.  Monitors call ``count``, ``nontrivial``,
``violation``, ``out_of_scope``; the shard driver sets ``case`` before it
drives a case.  Everything here is plain data so that it can be dumped as JSON
and merged by the parent (``rv.runner``).
"""

import collections
import contextlib
import json
import re
import traceback

MAX_VIOLATIONS = 25       # per shard; the first ones are what matters
MAX_SAMPLES = 6           # per shard (parent keeps <= 10)


class HarnessError(Exception):
    """Raised for bugs/limits of /verif code itself (=> inconclusive)."""


class CaseTooLarge(Exception):
    """The reference enumeration hit its concept cap (case skipped, counted)."""


class CaseTimeout(BaseException):
    """ITIMER_VIRTUAL fired (BaseException: code under test must not eat it)."""


class Collector:

    def __init__(self, prop='?'):
        self.prop = prop
        self.counters = collections.Counter()
        self.violations = []
        self.n_violations = 0
        self.distinct = set()
        self.samples = []
        self.case = None            # JSON-able description of the current case
        self.case_index = None
        self.events = collections.deque(maxlen=40)
        self.harness_errors = []
        self.depth = 0              # >0 while monitor (harness) code is running
        self.sample_every = 1
        self.python_optimize = False
        self.strict_warnings = False
        self.low_limit = 0          # >0 while faults.low_stack() runs a call with little stack left
        self.high_limit = 0
        self.env_fault = False      # tuple of exception types while faults.environment() runs a call the environment will fail
        self._sample_tick = 0

    # -- counters ---------------------------------------------------------
    def count(self, key, n=1):
        self.counters[key] += n

    def nontrivial(self, *key):
        """Record one distinct non-trivial case (hash of ``key``)."""
        self.distinct.add(hash(key) & 0xFFFFFFFFFFFFFFFF)

    def event(self, *what):
        self.events.append(what)

    def sample(self, obj, force=False):
        """Keep the 1st, 4th, 16th, 64th, ... offered case (log-spaced: small and late/large ones)."""
        self._sample_tick += 1
        t = self._sample_tick
        if force or (t & (t - 1) == 0 and bin(t).count('0') % 2 == 1):
            if len(self.samples) < MAX_SAMPLES:
                self.samples.append(jsonable(obj))

    # -- verdicts -----------------------------------------------------------
    def violation(self, monitor, mechanism, expected=None, observed=None,
                  detail=None, prop=None):
        """Record a violation of ``prop`` (default: the property being checked).

        ``mechanism`` is the stable key used by known_findings.json: it names
        the monitor rule and the shape of the discrepancy, never the values.
        """
        self.n_violations += 1
        self.counters['violations'] += 1
        if len(self.violations) >= MAX_VIOLATIONS:
            return
        self.violations.append({
            'property': prop or self.prop,
            'monitor': monitor,
            'mechanism': mechanism,
            'expected': jsonable(expected),
            'observed': jsonable(observed),
            'detail': jsonable(detail),
            'case': json_case(self.case) if len(self.violations) < 3 else jsonable(self.case),
            'case_index': self.case_index,
            'python_optimize': self.python_optimize,
            'strict_warnings': self.strict_warnings,
            'last_events': [jsonable(e) for e in self.events],
        })

    def harness_error(self, where, exc=None):
        self.counters['harness_errors'] += 1
        if len(self.harness_errors) < 10:
            self.harness_errors.append({
                'where': where,
                'error': repr(exc) if exc is not None else None,
                'traceback': traceback.format_exc(limit=12) if exc is not None else None,
                'case': jsonable(self.case)})

    # -- dump -------------------------------------------------------------
    def dump(self):
        return {'prop': self.prop,
                'counters': dict(self.counters),
                'violations': self.violations,
                'n_violations': self.n_violations,
                'distinct': sorted(self.distinct),
                'samples': self.samples,
                'harness_errors': self.harness_errors}


COL = Collector()


def reset(prop):
    global COL
    COL.__init__(prop)
    return COL


@contextlib.contextmanager
def monitor_code():
    """Mark the dynamic extent of harness code (nested wrappers pass through)."""
    COL.depth += 1
    try:
        yield
    finally:
        COL.depth -= 1


_ADDR = re.compile(r'0x[0-9a-fA-F]+')


def mask_addr(text):
    return _ADDR.sub('0x…', text)


def jsonable(obj, _depth=0):
    """Best-effort conversion to JSON-able data (never raises)."""
    if isinstance(obj, int) and not isinstance(obj, bool) and obj.bit_length() > 12000:
        return 'int:' + hex(obj)        # beyond the 4 300-digit limit of decimal int <-> str conversion
    if obj is None or isinstance(obj, (bool, int, float, str)):
        return obj
    if _depth > 6:
        return mask_addr(repr(obj))[:200]
    if isinstance(obj, dict):
        return {str(k) if not isinstance(k, str) else k: jsonable(v, _depth + 1)
                for k, v in list(obj.items())[:200]}
    if isinstance(obj, (list, tuple)):
        return [jsonable(v, _depth + 1) for v in obj[:400]]
    if isinstance(obj, (set, frozenset)):
        try:
            items = sorted(obj)
        except TypeError:
            items = sorted(obj, key=repr)
        return [jsonable(v, _depth + 1) for v in items[:400]]
    if isinstance(obj, bytes):
        return obj[:200].decode('latin-1')
    try:
        return mask_addr(repr(obj))[:300]
    except Exception as e:  # repr of code under test may itself fail
        return f'<unreprable {type(obj).__name__}: {e!r}>'


def dumps(obj):
    return json.dumps(jsonable(obj), ensure_ascii=False, sort_keys=True)


def revive_ints(obj):
    """Inverse of the 'int:0x...' encoding of very large ints in ``jsonable`` (replay files)."""
    if isinstance(obj, str) and obj.startswith('int:0x'):
        return int(obj[4:], 16)
    if isinstance(obj, list):
        return [revive_ints(v) for v in obj]
    if isinstance(obj, dict):
        return {k: revive_ints(v) for k, v in obj.items()}
    return obj


def json_case(obj):
    """A case written out completely (replay files must reproduce big cases too): no truncation,
    very large ints as 'int:0x...' (see ``revive_ints``).  Falls back to ``jsonable`` for anything
    that is not plain data."""
    if isinstance(obj, int) and not isinstance(obj, bool) and obj.bit_length() > 12000:
        return 'int:' + hex(obj)
    if obj is None or isinstance(obj, (bool, int, float, str)):
        return obj
    if isinstance(obj, dict):
        return {str(k): json_case(v) for k, v in obj.items()}
    if isinstance(obj, (list, tuple)):
        return [json_case(v) for v in obj]
    return jsonable(obj)
