"""C11 - structured persistence reloads the same context and the same lattice."""

import copy
import io
import json
import os
import pathlib
import pickle
import random
import subprocess
import sys

from .. import attach, core, gen, faults
from ..attach import Monitor
from ..core import COL
from ..shadow import Shadow, bits, longlex_key
from . import common, c03, c05, c06, c10
from .common import call, RAISED
from .c06 import permuted_dict, structured_raw_dict, RAW_HOWS

CAP = {'quick': 1500, 'thorough': 6000}
HEAVY = {'quick': 320, 'thorough': 1300}     # above: light judgement only (order + concept set)

META = {
    'rule': ('cases: the standard context stream (reduced) plus a size sweep (chains, contranominal '
             'scales, random 30x15; lattices from 1 to ~1 500 (quick) / ~4 000 (thorough) concepts) x '
             'media {dict, JSON via str path / bytes path / PathLike / file object with indent and '
             'sort_keys variants, python-literal string and file, pickle protocols 0-5 of context, '
             'lattice, (context, lattice) and single concepts} x {lattice present, absent, lazily '
             'absent} x {ordered, raw=True with a permuted stored list}; pickles are also loaded in '
             'fresh interpreters with other PYTHONHASHSEED values; hostile history: two pre-forked '
             'sibling processes pickle same-label contexts with different tables and both are loaded '
             'here. Events: todict, fromdict (everything else funnels through it), tojson/fromjson, '
             '__getstate__/__setstate__/__reduce__ (counted). Oracle: todict() equals the encoding the '
             'shadow derives from the documentation; a reloaded context has the same triple and its '
             'stored lattice passes the C03/C05/C06/C10 structural monitors and has the same public-'
             'query digest as Context(*triple).lattice built from scratch. distinct_nontrivial = '
             'distinct (table, medium, lattice presence, permutation) with >= 3 concepts.'),
    'evaluation_counters': ['judged_todict', 'judged_fromdict', 'judged_loaded_lattice', 'judged_unpickled',
                            'judged_child_digest'],
    'required_counters': ['judged_todict', 'judged_todict_with_lattice', 'judged_todict_lazy_absent',
                          'judged_fromdict', 'judged_fromdict_raw', 'judged_loaded_lattice',
                          'judged_unpickled', 'judged_child_digest', 'medium_json_str', 'medium_json_bytes',
                          'medium_json_pathlike', 'medium_json_fileobj', 'medium_json_binary_fileobj', 'medium_literal_string',
                          'medium_literal_file', 'medium_pickle', 'digests_compared',
                          
                          
                          'child_processes', 'sibling_histories', 'returned_dict_edited_in_place',
                          'earlier_unpickled_contexts_requeried', 'same_label_histories'],
    'shards': {'quick': 16, 'thorough': 16},
    'case_cpu_s': {'quick': 3600, 'thorough': 14400},
    'assumptions': ['byte-level layout of JSON/pickle and container types (list vs tuple) are not judged'],
}


# ---------------------------------------------------------------------------
# the documented encoding, derived by the shadow

def expected_dict(sh, with_lattice, cap):
    d = {'objects': tuple(sh.objects), 'properties': tuple(sh.properties),
         'context': [tuple(bits(r)) for r in sh.rows]}
    if with_lattice:
        sl = sh.lattice(cap)
        d['lattice'] = [(tuple(bits(sl.extents[k])), tuple(bits(sl.intents[k])),
                         tuple(sl.upper(k)), tuple(sl.lower(k))) for k in range(sl.n)]
    return d


def plain(x):
    """tuples -> lists, recursively (container types are not judged)."""
    if isinstance(x, (list, tuple)):
        return [plain(v) for v in x]
    if isinstance(x, dict):
        return {k: plain(v) for k, v in x.items()}
    return x


def digest(lat):
    """Public-query digest of a lattice (everything a user can ask of it)."""
    members = list(lat)
    idx = {id(c): k for k, c in enumerate(members)}
    g = lambda cs: [idx.get(id(c), -1) for c in cs]
    out = {'len': len(lat), 'infimum': idx.get(id(lat.infimum)), 'supremum': idx.get(id(lat.supremum)),
           'atoms': g(lat.atoms), 'repr': core.mask_addr(repr(lat)), 'members': []}
    for c in members:
        out['members'].append([list(c.extent), list(c.intent), c.index, c.dindex, list(c.objects),
                               list(c.properties), g(c.atoms), g(c.upper_neighbors), g(c.lower_neighbors),
                               type(c).__name__, str(c), idx.get(id(c.lattice.supremum)) == len(members) - 1])
    if len(members) <= 40:
        out['join'] = [[idx.get(id(a | b)) for b in members] for a in members]
        out['meet'] = [[idx.get(id(a & b)) for b in members] for a in members]
        out['upset'] = [g(c.upset()) for c in members]
        out['downset'] = [g(c.downset()) for c in members]
        out['minimal'] = [list(c.minimal()) for c in members] if len(members[0].intent) <= 10 else None
    else:
        r = random.Random(len(members))
        pairs = [(r.randrange(len(members)), r.randrange(len(members))) for _ in range(60)]
        out['join'] = [idx.get(id(members[a] | members[b])) for a, b in pairs]
        out['meet'] = [idx.get(id(members[a] & members[b])) for a, b in pairs]
        out['lookup'] = [idx.get(id(lat[tuple(members[a].extent)])) if members[a].extent else None for a, _ in pairs]
    return out


def label_queries(lat):
    """What a caller who holds only the lattice asks of it: lookups by labels, bounds, generating sets."""
    members = list(lat)
    idx = {id(c): k for k, c in enumerate(members)}
    out = []
    for c in members[:60]:
        row = [idx.get(id(lat[tuple(c.extent)])) if c.extent else None, idx.get(id(lat(tuple(c.intent)))),
               idx.get(id(lat.join([c, members[0]]))), idx.get(id(lat.meet([c, members[-1]]))),
               idx.get(id(c | members[len(members) // 2])), list(c.minimal())]
        if len(c.intent) <= 8:
            row.append([list(a) for a in c.attributes()])
        out.append(row)
    out.append([idx.get(id(lat.join([]))), idx.get(id(lat.meet([]))), [idx.get(id(a)) for a in lat.atoms]])
    return out


def lattice_outlives_context(load, want, origin):
    """``lattice = Context.fromjson(path).lattice``: the caller keeps the stored lattice and lets go of the
    context it came with.  The lattice must go on answering like the one built from scratch."""
    import gc
    c2 = load()
    if c2 is RAISED or c2 is None or not attach.has_lattice(c2):
        return
    l_only = c2.lattice
    del c2
    common.drop_views()
    gc.collect()
    COL.count('lattices_kept_without_their_context')
    with core.monitor_code():
        try:
            got = label_queries(l_only)
        except Exception as e:
            COL.violation(origin, f'{origin}:query-on-lattice-kept-without-its-context-raised-{type(e).__name__}',
                          'a result', repr(e))
            return
    if got != want:
        k = next((i for i, (a, b) in enumerate(zip(want, got)) if a != b), None)
        COL.violation(origin, f'{origin}:lattice-kept-without-its-context-answers-differently',
                      want[k] if k is not None else len(want), got[k] if k is not None else len(got))


def judge_lattice(lat, ctx, sh, cap, origin, scratch_digest=None, light=False):
    """The stored/unpickled lattice vs the structural monitors and the scratch digest."""
    COL.count('judged_loaded_lattice')
    COL.count('judged_loaded_lattice_' + origin)
    attach.register_shadow(ctx, sh, 'c11')
    common.tie(lat, ctx)
    common.drop_views()
    c03.judge_pairs(sh, [(tuple(c.extent), tuple(c.intent)) for c in lat], cap, f'{origin}-members')
    c05.judge_structure(lat, cap, origin)
    if light:
        COL.count('judged_loaded_lattice_light')
        return
    c06.judge_order(lat, cap, origin)
    c10.judge_labels(lat, cap, origin)
    if scratch_digest is not None:
        COL.count('digests_compared')
        try:
            got = digest(lat)
        except Exception as e:
            COL.violation(origin, f'{origin}:public-query-on-loaded-lattice-raised-{type(e).__name__}',
                          'a result', repr(e))
            return
        if got != scratch_digest:
            keys = [k for k in scratch_digest if got.get(k) != scratch_digest[k]]
            first = keys[0]
            a, b = scratch_digest[first], got.get(first)
            if first == 'members':
                k = next(i for i, (x, y) in enumerate(zip(a, b)) if x != y) if len(a) == len(b) else None
                a, b = (a[k], b[k]) if k is not None else (len(a), len(b))
            COL.violation(origin, f'{origin}:digest-differs-from-lattice-built-from-scratch:{first}', a, b,
                          {'differing_keys': keys})


class TodictMonitor(Monitor):
    def __init__(self, cap):
        self.cap = cap

    def before(self, args, kwargs):
        ctx = args[0]
        return attach.has_lattice(ctx)

    def after(self, token, args, kwargs, result):
        ctx = args[0]
        ign = common.get_arg(args, kwargs, 1, 'ignore_lattice', False)
        had = token
        sh = attach.shadow_of(ctx)
        want_lat = (had if ign is None else not ign)
        if want_lat and sh.lattice(self.cap).n > 2500:
            raise core.CaseTooLarge
        COL.count('judged_todict')
        if want_lat:
            COL.count('judged_todict_with_lattice')
        if ign is None and not had:
            COL.count('judged_todict_lazy_absent')
        want = expected_dict(sh, want_lat, self.cap)
        if not isinstance(result, dict):
            COL.violation('todict', 'todict:not-a-dict', 'dict', repr(result))
            return
        if set(result) != set(want):
            COL.violation('todict', 'todict:keys-differ', sorted(want), sorted(result), {'ignore_lattice': ign})
            return
        for k in ('objects', 'properties', 'context', 'lattice'):
            if k in want and plain(result[k]) != plain(want[k]):
                a, b = plain(want[k]), plain(result[k])
                if k in ('context', 'lattice') and len(a) == len(b):
                    i = next(i for i, (x, y) in enumerate(zip(a, b)) if x != y)
                    a, b = {'row': i, 'value': a[i]}, {'row': i, 'value': b[i]}
                COL.violation('todict', f'todict:{k}-differs-from-documented-encoding', a, b)
                return

    def raised(self, token, args, kwargs, exc):
        COL.count('judged_todict')
        COL.violation('todict', f'todict:raised-{type(exc).__name__}', 'a dict', repr(exc))


def shadow_from_dict(d):
    m = len(d['properties'])
    rows = []
    for r in d['context']:
        mask = 0
        for j in r:
            mask |= 1 << j
        rows.append(mask)
    return Shadow(d['objects'], d['properties'], rows)


class FromdictMonitor(Monitor):
    def __init__(self, cap, heavy):
        self.cap, self.heavy = cap, heavy

    def before(self, args, kwargs):
        d = common.get_arg(args, kwargs, 1, 'd')
        try:
            return {k: d[k] for k in d}, bool(common.get_arg(args, kwargs, 2, 'ignore_lattice', False)), \
                bool(common.get_arg(args, kwargs, 4, 'raw', False))
        except Exception:
            return None

    def after(self, token, args, kwargs, result):
        if token is None:
            return
        d, ign, raw = token
        try:
            sh = shadow_from_dict(d)
        except Exception:
            COL.count('out_of_scope_malformed_dict')
            return
        COL.count('judged_fromdict')
        if raw:
            COL.count('judged_fromdict_raw')
        ctx = result
        got = (tuple(ctx.objects), tuple(ctx.properties), [tuple(map(bool, r)) for r in ctx.bools])
        if got != sh.triple():
            COL.violation('fromdict', 'fromdict:triple-differs-from-serialized-table', sh.triple(), got)
            return
        stored = d.get('lattice') is not None and not ign
        if stored != attach.has_lattice(ctx):
            COL.violation('fromdict', 'fromdict:stored-lattice-presence-differs', stored, attach.has_lattice(ctx))
            return
        if not stored:
            return
        sl = sh.lattice(self.cap)
        # only *consistent* stored lattices are in scope: the stored list must encode the concept set
        try:
            enc = {(tuple(sorted(e)), tuple(sorted(i))) for e, i, _, _ in d['lattice']}
        except Exception:
            COL.count('out_of_scope_inconsistent_stored_lattice')
            return
        if enc != {(bits(e), bits(i)) for e, i in zip(sl.extents, sl.intents)}:
            COL.count('out_of_scope_inconsistent_stored_lattice')
            return
        if not raw and plain(d['lattice']) != plain(expected_dict(sh, True, self.cap)['lattice']):
            COL.count('out_of_scope_unordered_list_without_raw')
            return
        scratch = None
        if sl.n <= self.heavy:
            try:
                fresh = type(ctx)(list(sh.objects), list(sh.properties), sh.triple()[2])
                scratch = digest(fresh.lattice)
            except Exception as e:
                COL.harness_error('scratch lattice', e)
        judge_lattice(ctx.lattice, ctx, sh, self.cap, 'loaded_raw' if raw else 'loaded', scratch,
                      light=sl.n > self.heavy)
        if sl.n >= 3:
            COL.nontrivial(sh.key(), 'dict', raw, core.dumps(plain(d['lattice']))[:2000] if raw else '')


class Counter(Monitor):
    def __init__(self, key):
        self.key = key

    def after(self, token, args, kwargs, result):
        COL.count(self.key)


def setup(concepts, spec):
    from .. import probes
    probes.install(['fromlist'])
    cap = CAP[spec['tier']]
    attach.attach_ctor(concepts)
    cx = concepts.contexts
    attach.attach(concepts.Context, 'todict', TodictMonitor(cap))
    attach.attach(concepts.Context, 'fromdict', FromdictMonitor(cap, HEAVY[spec['tier']]))
    for owner, name, key in [(concepts.Context, '__getstate__', 'Context.__getstate__'),
                             (concepts.Context, '__setstate__', 'Context.__setstate__'),
                             (concepts.lattices.Lattice, '__getstate__', 'Lattice.__getstate__'),
                             (concepts.lattices.Lattice, '__setstate__', 'Lattice.__setstate__'),
                             (concepts.matrices.Relation, '__reduce__', 'Relation.__reduce__'),
                             (concepts.matrices.Vectors, '__reduce__', 'Vectors.__reduce__'),
                             (concepts.Context, 'tojson', 'tojson'), (concepts.Context, 'fromjson', 'fromjson')]:
        try:
            attach.attach(owner, name, Counter(key))
        except (KeyError, core.HarnessError):
            COL.count('hook_unavailable_' + key)
    global BATCH
    BATCH = []


# ---------------------------------------------------------------------------
# workload

def size_sweep(tier):
    sizes = [1, 2, 5, 30, 120, 250, 520] if tier == 'quick' else \
        [1, 2, 5, 30, 120, 300, 380, 440, 520, 800, 1400, 2500]
    for n in sizes:        # chain with n+1 concepts
        yield dict(gen.case(f'SWEEP:chain{n}', [(1 << (i + 1)) - 1 for i in range(n)], n, 'rev'), sweep=True)
    for n in ([3, 6, 8, 9] if tier == 'quick' else [3, 6, 8, 9, 10, 11]):
        full = (1 << n) - 1
        yield dict(gen.case(f'SWEEP:contranominal{n}', [full & ~(1 << i) for i in range(n)], n, 'shuffled'), sweep=True)
    rng = random.Random('c11-sweep')
    for k in range(1 if tier == 'quick' else 6):
        yield dict(gen.case(f'SWEEP:random30x15', gen.rnd_rows(rng, 30, 15, .5), 15, 'unicode'), sweep=True)


def run_same_labels(concepts, case, spec):
    """Several contexts with identical label tuples and different tables, all pickled, then all
    loaded into this process (in-process and from files, as contexts and as lattices): each
    must keep answering from its own table whatever was loaded after it."""
    rng = random.Random(f"{spec['seed']}/c11same/{case['n']}")
    n, m = rng.randint(2, 5), rng.randint(2, 5)
    objects, properties = gen.labels(n, m, rng.choice(['shared', 'plain', 'unicode']))
    shadows, blobs, alive = [], [], []
    for k in range(4):
        rows = gen.rnd_rows(rng, n, m, rng.choice([.3, .5, .7]))
        sh = Shadow(objects, properties, rows)
        ctx = call(concepts.Context, list(objects), list(properties), sh.triple()[2])
        if ctx is RAISED:
            return
        obj = ctx if k % 2 == 0 else (ctx, call(lambda: ctx.lattice))
        blobs.append(pickle.dumps(obj, protocol=rng.choice([0, 1, 2, 4, 5])))
        shadows.append(sh)
        if k % 2:
            alive.append((ctx, sh))         # stays alive while the pickles of discarded ones are loaded
        del ctx, obj
        if case['n'] % 2:
            import gc
            gc.collect()
    loaded = []
    for blob in blobs:
        back = call(pickle.loads, blob)
        if back is RAISED:
            COL.violation('same-labels', 'same-labels:loads-raised', 'an object', 'exception')
            return
        loaded.append(back[0] if isinstance(back, tuple) else back)
    COL.count('same_label_histories')
    for ctx, sh in list(zip(loaded, shadows)) + alive:
        COL.count('judged_unpickled')
        if not same_triple('same-labels', ctx, sh):
            continue
        for sub in ([objects[0]], list(objects[:2]), []):
            got = call(ctx.intension, sub)
            want = sh.plabels(sh.intension(sh.omask(sub)))
            if got is RAISED or tuple(got) != want:
                COL.violation('same-labels', 'same-labels:derivation-of-a-loaded-context-follows-another-table',
                              {'objects': sub, 'intension': want, 'rows': list(sh.rows)},
                              None if got is RAISED else tuple(got))
                break
        lat = common.get_lattice(ctx)
        if lat is not RAISED:
            with core.monitor_code():
                judge_lattice(lat, ctx, sh, CAP[spec['tier']], 'same_labels_lattice')


def cases(tier, seed, spec):
    for k in range(8 if tier == 'quick' else 200):
        yield {'kind': 'same-labels', 'n': k}
    yield {'kind': 'siblings', 'n': 0}
    yield {'kind': 'siblings', 'n': 1}
    for k in range(4 if tier == 'quick' else 40):
        yield {'kind': 'unrelated-siblings', 'n': k}
    yield from size_sweep(tier)
    # beyond the 4 300-digit limit of int <-> str conversion (14 285 bits) on the property axis
    yield from (c for c in gen.giant(seed, 4 if tier == 'quick' else 12, only='wide') if 14300 < len(c['properties']) < 20000)
    # (contexts of the harness' own user subclass cannot be unpickled in the fresh child interpreters)
    yield from (c for c in gen.ctx_stream(tier, seed, scale=.35 if tier == 'quick' else .3, with_wide=True)
                if not c.get('subclass'))


def _json_roundtrip(concepts, ctx, work, rng, ignore_lattice, raw):
    C = concepts.Context
    how = rng.randrange(5)
    kw = {'indent': rng.choice([None, 2, 4]), 'sort_keys': rng.random() < .5}
    if how == 0:
        COL.count('medium_json_str')
        path = os.path.join(work, f'j{rng.randrange(10**6)}.json')
        enc = rng.choice(['utf-8', 'utf-16', 'utf-8', 'latin-1'])   # json escapes non-ASCII: any codec works
        COL.count('json_encoding_' + enc)
        if call(ctx.tojson, path, encoding=enc, ignore_lattice=ignore_lattice, **kw) is RAISED:
            return RAISED
        return call(C.fromjson, path, encoding=enc, raw=raw)
    if how == 1:
        COL.count('medium_json_bytes')
        path = os.path.join(work, f'j{rng.randrange(10**6)}.json').encode()
        if call(ctx.tojson, path, ignore_lattice=ignore_lattice, **kw) is RAISED:
            return RAISED
        return call(C.fromjson, path, raw=raw)
    if how == 2:
        COL.count('medium_json_pathlike')
        path = pathlib.Path(work) / f'j{rng.randrange(10**6)}.json'
        if call(ctx.tojson, path, ignore_lattice=ignore_lattice, **kw) is RAISED:
            return RAISED
        return call(C.fromjson, path, raw=raw)
    if how == 4:        # written through a path, read back from a *binary* file-like object
        COL.count('medium_json_binary_fileobj')
        path = os.path.join(work, f'j{rng.randrange(10**6)}.json')
        if call(ctx.tojson, path, ignore_lattice=ignore_lattice, **kw) is RAISED:
            return RAISED
        if rng.random() < .5:
            with open(path, 'rb') as f:
                return call(C.fromjson, f, raw=raw)
        with open(path, 'rb') as f:
            return call(C.fromjson, io.BytesIO(f.read()), raw=raw)
    COL.count('medium_json_fileobj')
    buf = io.StringIO()
    if call(ctx.tojson, buf, ignore_lattice=ignore_lattice, **kw) is RAISED:
        return RAISED
    return call(C.fromjson, io.StringIO(buf.getvalue()), raw=raw)


def same_triple(where, c2, sh):
    if c2 is RAISED:
        COL.violation('driver', f'{where}:raised', 'a context', 'exception')
        return False
    got = (tuple(c2.objects), tuple(c2.properties), [tuple(map(bool, r)) for r in c2.bools])
    if got != sh.triple():
        COL.violation('driver', f'{where}:reloaded-context-has-another-triple', sh.triple(), got)
        return False
    return True


UNPICKLED = []      # (context loaded from a pickle earlier, its shadow)


def requery_unpickled(rng):
    """Contexts unpickled earlier (often with the very same labels as the one just loaded) must
    still answer from their own table."""
    if not UNPICKLED:
        return
    old, osh = rng.choice(UNPICKLED)
    COL.count('earlier_unpickled_contexts_requeried')
    for _ in range(3):
        sub = rng.sample(list(osh.objects), rng.randint(0, min(osh.n, 4)))
        got = call(old.intension, sub)
        want = osh.plabels(osh.intension(osh.omask(sub)))
        if got is RAISED or tuple(got) != want:
            COL.violation('unpickled-pool', 'unpickled-pool:derivation-of-earlier-unpickled-context-changed',
                          {'objects': sub, 'intension': want}, None if got is RAISED else tuple(got))
            return
        subp = rng.sample(list(osh.properties), rng.randint(0, min(osh.m, 3)))
        got = call(old.extension, subp)
        want = osh.olabels(osh.extension(osh.pmask(subp)))
        if got is RAISED or tuple(got) != want:
            COL.violation('unpickled-pool', 'unpickled-pool:derivation-of-earlier-unpickled-context-changed',
                          {'properties': subp, 'extension': want}, None if got is RAISED else tuple(got))
            return


def run_siblings(concepts, case, spec):
    """Two pre-forked sibling processes pickle same-label contexts with different tables."""
    work = spec['workdir']
    tables = [[(True, False), (False, True)], [(True, True), (False, True)]]
    if case['n'] == 1:
        tables = [[(False, True), (True, True)], [(True, False), (True, True)]]
    objects, properties = ['a', 'b'], ['p', 'q']
    paths = []
    sys.stdout.flush()
    for k, t in enumerate(tables):
        path = os.path.join(work, f"sib{case['n']}_{k}.pkl")
        paths.append(path)
        pid = os.fork()
        if pid == 0:
            code = 1
            try:
                c = concepts.Context(objects, properties, t)
                with open(path, 'wb') as f:
                    pickle.dump(c, f)
                code = 0
            finally:
                os._exit(code)
        _, status = os.waitpid(pid, 0)
        if status != 0:
            COL.harness_error(f'sibling child exited with {status}')
            return
    COL.count('sibling_histories')
    loaded = []
    for path in paths:
        with open(path, 'rb') as f:
            loaded.append(call(pickle.load, f))
    if RAISED in loaded:
        COL.violation('siblings', 'sibling-pickles:load-raised', 'two contexts', 'exception')
        return
    COL.sample({'sibling_tables': tables, 'labels': [objects, properties]})
    for c, t in zip(loaded, tables):
        sh = Shadow.from_bools(objects, properties, t)
        COL.count('judged_unpickled')
        if [tuple(r) for r in c.bools] != [tuple(r) for r in t]:
            COL.violation('siblings', 'sibling-pickles:bools-differ', t, c.bools)
        for o in objects:
            got = call(c.intension, [o])
            want = sh.plabels(sh.intension(sh.omask([o])))
            if got is RAISED or tuple(got) != want:
                COL.violation('siblings', 'sibling-pickles:derivation-of-earlier-loaded-context-changed',
                              {'object': o, 'intension': want, 'table': t},
                              None if got is RAISED else tuple(got))
                break


def run_unrelated_siblings(concepts, case, spec):
    """Pre-forked sibling processes build contexts with DIFFERENT labels and sizes and pickle (context, lattice);
    this process builds one of its own after the forks (same heap state: the class addresses that travel in
    the pickles coincide with the local ones) and then loads them all.  Every loaded pair and the local one
    is judged structurally and through the order / relation predicates of all ordered pairs of concepts."""
    from .c08 import PREDICATES
    work = spec['workdir']
    rng = random.Random(f"{spec['seed']}/c11/unrelated/{case['n']}")
    specs = []
    for k in range(3):
        n, m = 3 + k + case['n'] % 2, 3 + (k * 2 + case['n']) % 3
        rows = [rng.getrandbits(m) for _ in range(n)]
        specs.append(([f'w{k}_{i}' for i in range(n)], [f'q{k}_{j}' for j in range(m)], rows))
    sys.stdout.flush()
    paths = []
    for k, (o, p, rows) in enumerate(specs[1:]):
        path = os.path.join(work, f"unrel{case['n']}_{k}.pkl")
        paths.append(path)
        pid = os.fork()
        if pid == 0:
            code = 1
            try:
                c = concepts.Context(o, p, [tuple(bool(r >> j & 1) for j in range(len(p))) for r in rows])
                with open(path, 'wb') as f:
                    pickle.dump((c, c.lattice), f, protocol=2 + k)
                code = 0
            finally:
                os._exit(code)
        _, status = os.waitpid(pid, 0)
        if status != 0:
            COL.harness_error(f'sibling child exited with {status}')
            return
    o, p, rows = specs[0]
    local = call(concepts.Context, o, p, [tuple(bool(r >> j & 1) for j in range(len(p))) for r in rows])
    if local is RAISED:
        return
    pairs = [(local, common.get_lattice(local))]
    if rng.random() < .5:
        a, b = list(pairs[0][1])[0], list(pairs[0][1])[-1]
        call(a.complement_of, b), call(a.orthogonal_to, b), call(a.subcontrary_with, b)      # asked before the loads, too
    for path in paths:
        with open(path, 'rb') as f:
            back = call(pickle.load, f)
        if back is RAISED:
            COL.violation('siblings', 'unrelated-sibling-pickles:load-raised', 'a (context, lattice) pair', 'exception')
            return
        pairs.append(back)
    COL.count('unrelated_sibling_histories')
    cap = CAP[spec['tier']]
    for (c, lat), (o, p, rows) in zip(pairs, specs):
        sh = Shadow(o, p, rows)
        COL.count('judged_unpickled')
        if lat is RAISED or not same_triple('unrelated-sibling', c, sh):
            continue
        with core.monitor_code():
            judge_lattice(lat, c, sh, cap, 'unrelated_sibling')
        members = list(lat)
        ALL = (1 << sh.n) - 1
        bad = None
        for x in members:
            ex, ix = sh.omask(x.extent), sh.pmask(x.intent)
            for y in members:
                ey, iy = sh.omask(y.extent), sh.pmask(y.intent)
                for name, f in PREDICATES.items():
                    got = call(getattr(x, name), y)
                    COL.count('sibling_predicates_judged')
                    if got is RAISED or bool(got) != bool(f(ex, ey, ix, iy, ALL)):
                        bad = (name, list(x.extent), list(y.extent), None if got is RAISED else bool(got))
                        break
                if bad:
                    break
            if bad:
                break
        if bad:
            COL.violation('siblings', f'unrelated-sibling-pickles:{bad[0]}-differs-from-the-extents',
                          {'objects': list(o), 'x': bad[1], 'y': bad[2]}, bad[3])
    COL.nontrivial('unrelated-siblings', case['n'])


def run_giant(concepts, case, spec):
    """Tens of thousands of members on one axis: every medium once, the reloaded triple only (the
    structural judgement of such lattices is the business of the lattice checks)."""
    import io
    C = concepts.Context
    ctx = common.build_or_skip(concepts, case)
    if ctx is None:
        return
    sh = attach.shadow_of(ctx)
    COL.count('giant_axis_cases')
    lat = common.get_lattice(ctx) if len(ctx.objects) <= 64 else None
    for proto in range(6):
        for what, obj in (('context', ctx),) + ((('pair', (ctx, lat)),) if lat is not None and lat is not RAISED else ()):
            COL.count('medium_pickle')
            try:
                blob = pickle.dumps(obj, protocol=proto)
                back = pickle.loads(blob)
            except Exception as e:
                COL.count('judged_unpickled')
                COL.violation('pickle', f'pickle-{what}:giant-axis-raised-{type(e).__name__}', 'a round trip', repr(e)[:300],
                              {'protocol': proto, 'shape': [sh.n, sh.m]})
                continue
            COL.count('judged_unpickled')
            same_triple(f'pickle-{what}-giant', back if what == 'context' else back[0], sh)
    d = call(ctx.todict)
    if d is not RAISED:
        same_triple('fromdict-giant', call(C.fromdict, d), sh)
    buf = io.StringIO()
    if call(ctx.tojson, buf) is not RAISED:
        buf.seek(0)
        same_triple('fromjson-giant', call(C.fromjson, buf), sh)
    text = call(ctx.tostring, 'python-literal')
    if text is not RAISED:
        same_triple('literal-giant', call(C.fromstring, text, 'python-literal'), sh)
    COL.nontrivial(sh.key(), 'giant')


def _failed_persistence_first(concepts, ctx, lat, rng, work):
    """Attempts to persist the context / lattice that fail because of the environment (a stream whose
    device fills up after k characters, a missing directory, /dev/full), that are cut short by an
    injected exception, or loads of documents that are not there / truncated - before the judged
    exports, loads and round trips of the same objects.  None of these calls is judged."""
    C = concepts.Context
    for _ in range(rng.randint(1, 3)):
        k = rng.randrange(8)
        after = rng.choice([0, 1, 7, 30, 90, 250, 700])
        try:
            if k == 0:
                faults.environment(lambda: ctx.tojson(faults.FailingWriter(after), indent=rng.choice([None, 2])))
            elif k == 1:
                faults.environment(lambda: ctx.tojson(os.path.join(work, 'no-such-directory', 'c.json')))
                if os.path.exists('/dev/full'):
                    faults.environment(lambda: ctx.tojson('/dev/full'))
            elif k == 2:
                try:
                    pickle.dump(rng.choice([ctx, lat, (ctx, lat)]), faults.FailingWriter(after, binary=True),
                                protocol=rng.randrange(6))
                except OSError:
                    COL.count('pickle_dumps_failed_by_a_full_device')
            elif k == 3:
                n = rng.choice([1, 2, 4, 7, 12, 20, 35, 60, 100, 170])
                if faults.interrupted(lambda: ctx.todict(), n, rng.choice([RecursionError, MemoryError, KeyboardInterrupt])) \
                        is faults.INTERRUPTED:
                    COL.count('todict_cut_short_then_repeated')
            elif k == 4:
                n = rng.choice([1, 3, 6, 10, 18, 30, 55, 90])
                obj = rng.choice([ctx, lat, (ctx, lat)])
                faults.interrupted(lambda: pickle.dumps(obj, protocol=rng.randrange(6)), n,
                                   rng.choice([RecursionError, MemoryError, KeyboardInterrupt]))
            elif k == 5:
                faults.environment(lambda: C.fromjson(os.path.join(work, 'no-such-file.json')))
            elif k == 6:
                buf = io.StringIO()
                if call(ctx.tojson, buf) is not RAISED:
                    text = buf.getvalue()
                    faults.environment(lambda: C.fromjson(io.StringIO(text[:rng.randrange(1, max(2, len(text) - 1))])),
                                       (ValueError, KeyError, TypeError))
                    COL.count('truncated_documents_loaded_first')
            else:
                n = rng.choice([1, 2, 4, 8, 15, 25, 40])
                faults.interrupted(lambda: ctx.tostring('python-literal'), n, rng.choice([RecursionError, MemoryError]))
        except (core.CaseTimeout, core.CaseTooLarge):
            raise
        except BaseException as e:
            if not isinstance(e, Exception) and not isinstance(e, faults.Injected):
                raise
            COL.count('failed_persistence_stage_saw_' + type(e).__name__)
    COL.count('contexts_with_failed_persistence_attempts_before_the_round_trips')


def run_case(concepts, case, spec):
    if case.get('kind') == 'siblings':
        return run_siblings(concepts, case, spec)
    if case.get('kind') == 'unrelated-siblings':
        return run_unrelated_siblings(concepts, case, spec)
    if case.get('kind') == 'same-labels':
        return run_same_labels(concepts, case, spec)
    if case['fam'].startswith('HUGEGIANT'):
        return run_giant(concepts, case, spec)
    C = concepts.Context
    cap = CAP[spec['tier']]
    work = spec['workdir']
    rng = common.rng_for(case, spec)
    ctx = common.build_or_skip(concepts, case)
    if ctx is None:
        return
    sh = attach.shadow_of(ctx)
    sl = sh.lattice(cap)
    big = sl.n > HEAVY[spec['tier']]
    if rng.random() < .03 or case.get('sweep'):
        COL.sample({'fam': case['fam'], 'shape': [sh.n, sh.m], 'n_concepts': sl.n})
    # lazily absent lattice ---------------------------------------------------
    had_lattice = 'lattice' in vars(ctx)        # a context that came through a persistence route (via) may carry one
    d_lazy = call(ctx.todict, None)
    d_none = call(ctx.todict, True)
    if had_lattice:
        COL.count('lazy_todict_on_context_that_already_has_a_lattice')
        if d_lazy is not RAISED and 'lattice' not in d_lazy:
            COL.violation('driver', 'todict:lazy-lattice-omitted-although-it-was-computed', 'lattice key', 'no lattice key')
    elif d_lazy is not RAISED and 'lattice' in d_lazy:
        COL.violation('driver', 'todict:lazy-lattice-included-before-it-was-computed', 'no lattice key', 'lattice key')
    c0 = call(C.fromdict, copy.deepcopy(d_none)) if d_none is not RAISED else RAISED
    same_triple('fromdict-without-lattice', c0, sh)
    s = call(ctx.tostring, 'python-literal')
    if s is not RAISED:
        COL.count('medium_literal_string')
        same_triple('literal-without-lattice', call(C.fromstring, s, 'python-literal'), sh)
    # with lattice ------------------------------------------------------------
    lat = common.get_lattice(ctx)
    if lat is RAISED:
        COL.count('lattice_construction_raised')
        return
    if hash(gen.table_key(case)) % 3 == 0 and not big:
        _failed_persistence_first(concepts, ctx, lat, rng, work)
    d = call(ctx.todict)
    call(ctx.todict, None)
    if d is RAISED:
        return
    # the caller owns what todict() returns: editing it in place (e.g. to build a raw=True
    # input) must not change what the context serializes next
    dm = call(ctx.todict)
    if dm is not RAISED and isinstance(dm.get('lattice'), list) and isinstance(dm.get('context'), list):
        rng.shuffle(dm['lattice'])
        dm['context'].reverse()
        dm['lattice'].append(dm['lattice'][0])
        COL.count('returned_dict_edited_in_place')
        call(ctx.todict)
        call(ctx.todict, None)
    if not big:
        same_triple('fromdict', call(C.fromdict, copy.deepcopy(d)), sh)
        same_triple('fromdict-require', call(C.fromdict, copy.deepcopy(d), require_lattice=True), sh)
        same_triple('fromdict-ignore', call(C.fromdict, copy.deepcopy(d), ignore_lattice=True), sh)
        for _ in range(2 if sl.n <= 80 else 1):
            same_triple('fromdict-raw', call(C.fromdict, permuted_dict(d, rng), raw=True), sh)
        same_triple('fromdict-raw-ordered', call(C.fromdict, copy.deepcopy(d), raw=True), sh)
        for how in RAW_HOWS if sl.n <= 40 else [RAW_HOWS[hash(gen.table_key(case)) % 4]]:
            COL.count('structured_raw_' + how)
            same_triple('fromdict-raw-' + how, call(C.fromdict, structured_raw_dict(d, rng, how), raw=True), sh)
        # raw documents (permuted / reversed stored lists) through a JSON file and fromjson(raw=True)
        for doc in (permuted_dict(d, rng), structured_raw_dict(d, rng, 'reversed')):
            path = os.path.join(work, f'r{rng.randrange(10**6)}.json')
            with open(path, 'w', encoding='utf-8') as f:
                json.dump(plain(doc), f)
            cj = call(C.fromjson, path, raw=True)
            if same_triple('fromjson-raw-document', cj, sh) and attach.has_lattice(cj):
                COL.count('raw_documents_through_fromjson')
                with core.monitor_code():
                    judge_lattice(cj.lattice, cj, sh, cap, 'fromjson_raw')
        if sl.n <= 120 and hash(gen.table_key(case)) % 2 == 0:
            with core.monitor_code():
                try:
                    want_lq = label_queries(lat)
                except Exception:
                    want_lq = None
            if want_lq is not None:
                s_ = call(ctx.tostring, 'python-literal')
                routes = [(lambda: call(C.fromdict, copy.deepcopy(d)), 'fromdict'),
                          (lambda: _json_roundtrip(concepts, ctx, work, rng, False, False), 'fromjson'),
                          (lambda: call(C.fromstring, s_, 'python-literal') if s_ is not RAISED else None, 'literal'),
                          (lambda: call(C.fromdict, permuted_dict(d, rng), raw=True), 'fromdict_raw'),
                          (lambda: call(lambda: pickle.loads(pickle.dumps(ctx))), 'unpickled'),
                          (lambda: call(ctx.copy, include_lattice=True), 'copied')]
                for load, origin in rng.sample(routes, 2):
                    lattice_outlives_context(load, want_lq, origin)
        same_triple('json', _json_roundtrip(concepts, ctx, work, rng, False, False), sh)
        same_triple('json-raw', _json_roundtrip(concepts, ctx, work, rng, False, True), sh)
        same_triple('json-nolattice', _json_roundtrip(concepts, ctx, work, rng, True, False), sh)
        s = call(ctx.tostring, 'python-literal')
        if s is not RAISED:
            same_triple('literal-string', call(C.fromstring, s, 'python-literal'), sh)
        path = os.path.join(work, f'l{rng.randrange(10**6)}.py')
        if call(ctx.tofile, path, 'python-literal') is not RAISED:
            COL.count('medium_literal_file')
            same_triple('literal-file', call(C.fromfile, path, 'python-literal'), sh)
            same_triple('literal-load', call(concepts.load, path), sh)
        for enc in ('utf-16', 'latin-1', 'utf-32'):          # the literal file form in other encodings
            try:
                ''.join(sh.objects + sh.properties).encode(enc)
            except UnicodeEncodeError:
                continue
            if rng.random() < .5:
                continue
            path = os.path.join(work, f'l{rng.randrange(10**6)}.py')
            if call(ctx.tofile, path, 'python-literal', enc) is not RAISED:
                COL.count('literal_file_encoding_' + enc)
                same_triple(f'literal-file-{enc}', call(C.fromfile, path, 'python-literal', enc), sh)
                same_triple(f'literal-load-{enc}', call(concepts.load, path, enc), sh)
    else:
        same_triple('fromdict-big', call(C.fromdict, d), sh)
    # pickle --------------------------------------------------------------------
    scratch = None
    if not big:
        with core.monitor_code():
            scratch = digest(lat)
    if not big and sl.n <= 150:
        try:
            c2, l2 = copy.deepcopy((ctx, lat))
        except Exception as e:
            COL.violation('pickle', f'deepcopy-pair:raised-{type(e).__name__}', 'a copy', repr(e))
        else:
            COL.count('judged_unpickled')
            COL.count('medium_deepcopy')
            if same_triple('deepcopy-pair', c2, sh):
                with core.monitor_code():
                    judge_lattice(l2, c2, sh, cap, 'deepcopied', scratch)
    for proto in ([0, 1, 2, 3, 4, 5] if sl.n <= 60 else [rng.choice([0, 1, 2, 3, 4, 5])]):
        COL.count('medium_pickle')
        for what, obj in (('context', ctx), ('pair', (ctx, lat)), ('lattice', lat)):
            try:
                blob = pickle.dumps(obj, protocol=proto)
            except RecursionError:
                COL.count('judged_unpickled')
                COL.violation('pickle', f'pickle-{what}:dumps-RecursionError', 'bytes',
                              f'RecursionError for a lattice of {sl.n} concepts', {'fam': case['fam']})
                continue
            except Exception as e:
                COL.count('judged_unpickled')
                COL.violation('pickle', f'pickle-{what}:dumps-raised-{type(e).__name__}', 'bytes', repr(e))
                continue
            try:
                back = pickle.loads(blob)
            except Exception as e:
                COL.count('judged_unpickled')
                COL.violation('pickle', f'pickle-{what}:loads-raised-{type(e).__name__}', 'an object', repr(e))
                continue
            COL.count('judged_unpickled')
            if what == 'context':
                same_triple('pickle-context', back, sh)
                requery_unpickled(rng)
                UNPICKLED.append((back, sh))
                if len(UNPICKLED) > 6:
                    UNPICKLED.pop(0)
                if not big:
                    l2 = common.get_lattice(back)
                    if l2 is not RAISED:
                        with core.monitor_code():
                            judge_lattice(l2, back, sh, cap, 'recomputed_after_unpickle', scratch)
            elif what == 'pair':
                c2, l2 = back
                if same_triple('pickle-pair', c2, sh) and not big:
                    with core.monitor_code():
                        judge_lattice(l2, c2, sh, cap, 'unpickled', scratch)
                    if sl.n >= 3:
                        COL.nontrivial(sh.key(), 'pickle', proto)
                if len(BATCH) < (40 if spec['tier'] == 'quick' else 150) and sl.n <= 300 and scratch is not None:
                    BATCH.append({'blob': blob, 'triple': [list(sh.objects), list(sh.properties), list(sh.rows)],
                                  'digest': scratch, 'fam': case['fam']})
            else:
                # a lattice pickled alone: its members and context come along
                if not big and scratch is not None:
                    with core.monitor_code():
                        try:
                            got = digest(back)
                        except Exception as e:
                            COL.violation('pickle', f'pickle-lattice:query-raised-{type(e).__name__}', 'a result', repr(e))
                        else:
                            COL.count('digests_compared')
                            if got != scratch:
                                COL.violation('pickle', 'pickle-lattice:digest-differs', 'same digest',
                                              [k for k in scratch if got.get(k) != scratch[k]])


def finish(concepts, spec):
    """Load the collected (context, lattice) pickles in fresh interpreters with other hash seeds."""
    if not BATCH or spec.get('replay') is not None and not BATCH:
        return
    work = spec['workdir']
    bpath = os.path.join(work, 'batch.pkl')
    with open(bpath, 'wb') as f:
        pickle.dump([{'blob': b['blob'], 'triple': b['triple']} for b in BATCH], f)
    from .. import runner
    for hs in ('1', '31337'):
        out = os.path.join(work, f'child{hs}.json')
        env = runner.child_env(work, hashseed=hs, extra={'VERIF_REPO': spec['repo']})
        try:
            p = subprocess.run([sys.executable, '-X', f'pycache_prefix={os.path.join(work, "pyc")}',
                                '-m', 'rv.child_c11', bpath, out, spec['repo'], str(CAP[spec['tier']])],
                               env=env, cwd=work, capture_output=True, text=True, timeout=3000)
        except subprocess.TimeoutExpired:
            COL.harness_error('child interpreter timed out')
            continue
        COL.count('child_processes')
        if p.returncode != 0 or not os.path.exists(out):
            COL.harness_error(f'child interpreter failed rc={p.returncode}: {p.stderr[-800:]}')
            continue
        with open(out) as f:
            res = json.load(f)
        for v in res['violations']:
            COL.n_violations += 1
            COL.counters['violations'] += 1
            v['detail'] = {'in_child_with_PYTHONHASHSEED': hs, 'detail': v.get('detail')}
            COL.violations.append(v)
        for k, v in res['counters'].items():
            COL.counters['child_' + k] += v
        for item, got in zip(BATCH, res['digests']):
            COL.count('judged_child_digest')
            if got != json.loads(json.dumps(item['digest'])):
                keys = [k for k in item['digest'] if got is None or got.get(k) != json.loads(json.dumps(item['digest'][k]))]
                COL.case = {'fam': item['fam'], 'triple': item['triple']}
                COL.violation('child', 'cross-process:digest-differs-in-fresh-interpreter',
                              'the digest of the pickling process', keys, {'PYTHONHASHSEED': hs})
