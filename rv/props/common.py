"""Helpers shared by the property modules (drivers + lattice views)."""

import collections
import random
import weakref

from .. import core, gen, attach, faults
from ..core import COL
from ..shadow import Shadow, bits

RAISED = object()


def rng_for(case, spec, salt=''):
    return random.Random(f"{spec['seed']}/{spec['prop']}/{salt}/{hash(gen.table_key(case)) if 'rows' in case else core.dumps(case)}")


def build(concepts, case):
    """Construct the real Context for a table case (shadow comes from the ctor monitor).

    ``case['twin_rows']``: a second table over the same labels whose table text has the same CRC-32
    is built and queried through the whole public API first, and stays alive (``twin_prelude``).
    ``case['via']``: the context handed to the driver is not the one built from the table but one
    obtained from it by a persistence route (``via``) - its ``lattice`` is then the loaded lattice."""
    cls = user_subclass(concepts) if case.get('subclass') else concepts.Context
    twin = None
    if case.get('twin_rows') is not None:       # the twin exists before the context that is judged ...
        try:
            twin = concepts.Context(list(case['objects']), list(case['properties']),
                                    gen.bools_of(dict(case, rows=case['twin_rows'])))
        except core.CaseTimeout:
            raise
        except Exception:
            COL.count('crc_twin_construction_raised')
    ctx = cls(list(case['objects']), list(case['properties']), gen.bools_of(case))
    if case.get('subclass'):
        COL.count('contexts_of_a_user_subclass')
    if twin is not None:                        # ... and is asked everything before that one is asked anything
        twin_prelude(concepts, case, ctx, twin)
    if case.get('via'):
        ctx = via(concepts, ctx, case)
    first_reads(concepts, ctx, case)
    return ctx


def first_reads(concepts, ctx, case):
    """History before the driver asks anything: for two contexts in three a few cheap public reads
    that do not involve the lattice (statistics, fingerprints, printing, comparison, exports, one
    derivation, one generator step) are made on the new context first, in an order that depends on the
    table only.  Whatever such a read leaves behind on the context must not change what the judged calls
    return later (and the reads themselves are judged by whatever monitors are attached).  Never raises."""
    import zlib
    try:
        key = zlib.crc32(repr(('first-reads', len(case['objects']), len(case['properties']), list(case['objects'][:3]),
                               list(case['properties'][:3]), list(case['rows'][:8]), case.get('via'))).encode())
    except Exception:
        return
    if key % 3 == 0:
        COL.counters['contexts_asked_cold'] += 1
        return
    rng = random.Random(key)
    try:
        n, m = len(ctx.objects), len(ctx.properties)
    except Exception:
        return
    small = n * m <= 2500
    alg = concepts.algorithms
    reads = [lambda: ctx.fill_ratio, lambda: ctx.shape, lambda: (ctx.objects, ctx.properties),
             lambda: ctx.fill_ratio, lambda: ctx == ctx, lambda: ctx != ctx]
    if small:
        reads += [lambda: ctx.crc32(), lambda: str(ctx), lambda: repr(ctx), lambda: ctx.bools,
                  lambda: ctx.tostring(rng.choice(['table', 'cxt', 'csv'])), lambda: ctx.definition(),
                  lambda: ctx.todict(ignore_lattice=True), lambda: ctx == ctx.copy(),
                  lambda: ctx.intension(ctx.objects[:rng.randint(0, 2)]),
                  lambda: ctx.extension(ctx.properties[-rng.randint(0, 2):]),
                  lambda: ctx.neighbors(ctx.objects[:1]), lambda: ctx[ctx.properties[:1]],
                  lambda: ctx.relations(), lambda: next(alg.fcbo_dual(ctx), None),
                  lambda: next(alg.fast_generate_from(ctx), None), lambda: next(alg.iterconcepts(ctx), None),
                  lambda: __import__('pickle').dumps(ctx), lambda: __import__('copy').copy(ctx)]
    had = 'lattice' in vars(ctx)
    for fn in rng.sample(reads, rng.randint(1, 4)):
        try:
            fn()
        except (core.CaseTimeout, core.CaseTooLarge):
            raise
        except Exception:
            COL.counters['first_reads_raised'] += 1
        COL.counters['first_reads'] += 1
    if not had and 'lattice' in vars(ctx):
        COL.counters['first_reads_built_the_lattice'] += 1
    COL.counters['contexts_read_before_they_are_asked'] += 1


SubContext = None        # module attribute so that pickle finds the class by name (same process only)


def user_subclass(concepts):
    """``class SubContext(concepts.Context)`` that overrides nothing but ``__repr__`` - what a user who
    wants a few helper methods writes.  Every property holds for its instances as it does for Context."""
    global SubContext
    if SubContext is None or concepts.Context not in SubContext.__mro__:
        SubContext = type('SubContext', (concepts.Context,),
                          {'__module__': __name__, '__doc__': 'a plain user subclass',
                           'helper': lambda self: len(self.objects)})
    return SubContext


TWINS = collections.deque(maxlen=8)


def twin_prelude(concepts, case, ctx, twin):
    """Build the CRC-32 twin of ``ctx`` (same labels and shape, other cells, equal checksum of the
    table text), ask it everything, keep it alive.  Whatever is remembered under a fingerprint of the
    first context must not leak into the answers of the second.  Never raises."""
    import random
    rng = random.Random(repr(gen.table_key(case)))
    try:
        with core.monitor_code():
            same = twin.crc32() == ctx.crc32() and twin.bools != ctx.bools
    except Exception:
        same = False
    if case.get('fam') == 'HASHTWIN':
        COL.count('hash_twins')
    else:
        COL.count('crc_twins_confirmed_equal_crc32' if same else 'crc_twins_unconfirmed')
    TWINS.append(twin)
    exercise(concepts, twin, rng)


def exercise(concepts, ctx, rng, walk=30):
    """A systematic sweep over the public API of ``ctx`` and its lattice (every call is judged by
    whatever monitors the running property has attached), followed by a random walk.  Never raises."""
    def attempt(fn):
        try:
            return fn()
        except (core.CaseTimeout, core.CaseTooLarge):
            raise
        except Exception:
            COL.counters['exercise_calls_raised'] += 1
            return RAISED
    objs, props = list(ctx.objects), list(ctx.properties)
    algos = concepts.algorithms
    attempt(lambda: list(algos.iterconcepts(ctx)))
    attempt(lambda: algos.get_concepts(ctx))
    attempt(lambda: list(algos.fcbo_dual(ctx)))
    attempt(lambda: list(algos.fast_generate_from(ctx)))
    lat = get_lattice(ctx)
    for o in objs[:24]:
        attempt(lambda: (ctx.intension([o]), ctx[[o]], ctx.neighbors([o])))
    for p_ in props[:24]:
        attempt(lambda: (ctx.extension([p_]), ctx[[p_]]))
    for _ in range(12):
        so = rng.sample(objs, rng.randint(0, len(objs)))
        sp = rng.sample(props, rng.randint(0, len(props)))
        attempt(lambda: (ctx.intension(so), ctx.extension(sp), ctx.neighbors(so)))
    attempt(lambda: (str(ctx.relations()), str(ctx.relations(include_unary=True))))
    attempt(lambda: (ctx.todict(), ctx.tostring(), ctx.definition(), ctx.shape, ctx.fill_ratio))
    if lat is not RAISED:
        members = attempt(lambda: list(lat))
        if members is not RAISED and members:
            n = len(members)
            for c in members[:400]:
                attempt(c.minimal)
                if len(c.intent) <= 10:
                    attempt(lambda: list(c.attributes()))
                attempt(lambda: (lat[c.extent], lat(c.intent), str(c), c.atoms))
            for c in members[:120]:
                attempt(lambda: (list(c.upset()), list(c.downset())))
            pairs = ([(a, b) for a in members for b in members] if n <= 40 else
                     [(rng.choice(members), rng.choice(members)) for _ in range(800)])
            for a, b in pairs:
                attempt(lambda: (a | b, a & b, a <= b, a < b, a.incompatible_with(b), a.complement_of(b),
                                 a.subcontrary_with(b), a.orthogonal_to(b)))
            for _ in range(10):
                ms = [rng.choice(members) for _ in range(rng.randint(0, 5))]
                attempt(lambda: (lat.join(ms), lat.meet(ms), list(lat.upset_union(ms)), list(lat.downset_union(ms))))
            if n <= 200:
                attempt(lat.graphviz)
                attempt(lambda: str(lat))
    COL.counters['exercise_sweeps'] += 1
    if len(objs) <= 14 and len(props) <= 14:
        interference(concepts, ctx, lat if lat is not RAISED else None, rng, walk)


def via(concepts, ctx, case):
    """The same context (and lattice) after a trip through a persistence route.  The result is a
    context whose ``lattice`` is the loaded one (tied), so a driver runs its whole workload on loaded
    objects.  If the route itself fails the original is returned (the route is C11's business)."""
    import copy
    import io
    import pickle
    import random
    how = case['via']
    rng = random.Random(repr((how, gen.table_key(case))))
    C = type(ctx)           # classmethod constructors are called on the class of the source (a user subclass stays one)
    try:
        from .c06 import permuted_dict, structured_raw_dict
        lat = ctx.lattice
        tie(lat, ctx)
        d = ctx.todict()
        if how.startswith('edited-export-'):
            # the caller re-orders and overwrites what the first export handed out, then exports again
            if isinstance(d.get('lattice'), list) and d['lattice']:
                d['lattice'].reverse()
                d['lattice'][0] = ((), (), (), ())
                for k, row in enumerate(d['lattice']):
                    if isinstance(row, list):
                        row.reverse()
            if isinstance(d.get('context'), list):
                d['context'].reverse()
            how2 = how[len('edited-export-'):]
            if how2 == 'fromdict':
                new = C.fromdict(ctx.todict())
            elif how2 == 'json':
                buf = io.StringIO()
                ctx.tojson(buf)
                buf.seek(0)
                new = C.fromjson(buf)
            else:
                new, l2 = pickle.loads(pickle.dumps((ctx, lat)))
                if 'lattice' not in vars(new):
                    new.lattice = l2
        elif how == 'fromdict':
            new = C.fromdict(copy.deepcopy(d))
        elif how == 'fromdict-raw':
            new = C.fromdict(permuted_dict(d, rng), raw=True)
        elif how == 'fromdict-raw-sorted':
            new = C.fromdict(structured_raw_dict(d, rng, 'sorted'), raw=True)
        elif how == 'fromdict-raw-reversed':
            new = C.fromdict(structured_raw_dict(d, rng, 'reversed'), raw=True)
        elif how in ('json', 'json-raw'):
            buf = io.StringIO()
            if how == 'json':
                ctx.tojson(buf)
                buf.seek(0)
                new = C.fromjson(buf)
            else:
                import json
                json.dump(permuted_dict(d, rng), buf)
                buf.seek(0)
                new = C.fromjson(buf, raw=True)
        elif how == 'literal':
            new = C.fromstring(ctx.tostring('python-literal'), 'python-literal')
        elif how == 'pickle':
            new = pickle.loads(pickle.dumps(ctx, protocol=rng.choice([0, 1, 2, 3, 4, 5])))
        elif how == 'pickle-lattice':
            new, l2 = pickle.loads(pickle.dumps((ctx, lat), protocol=rng.choice([0, 2, 4, 5])))
            if 'lattice' not in vars(new):
                new.lattice = l2            # the pair travelled together; expose it the usual way
        elif how == 'pickle-member':
            m2 = pickle.loads(pickle.dumps(list(lat)[rng.randrange(len(lat))]))
            l2 = m2.lattice
            new = context_of(l2) or ctx
            if new is not ctx and 'lattice' not in vars(new):
                new.lattice = l2
        elif how == 'deepcopy':
            new, l2 = copy.deepcopy((ctx, lat))
            if 'lattice' not in vars(new):
                new.lattice = l2
        elif how == 'copy':
            new = ctx.copy(include_lattice=True)
        elif how == 'second-lattice':
            new = ctx
            l2 = concepts.lattices.Lattice(ctx)
            list(lat)
            new.__dict__['lattice'] = l2
        else:
            raise ValueError(how)
        if 'lattice' in vars(new):
            tie(new.lattice, new)
        if new.objects != ctx.objects or new.properties != ctx.properties or new.bools != ctx.bools:
            COL.count('via_route_changed_the_table_not_used')
            return ctx
    except (core.CaseTimeout, core.CaseTooLarge):
        raise
    except Exception:
        COL.count('via_route_failed_original_used')
        return ctx
    COL.count('via:' + how)
    if new is not ctx:
        VIA_SOURCES.append(ctx)         # the source stays alive beside the loaded one
    return new


VIA_SOURCES = collections.deque(maxlen=4)


def attach_overrides(concepts, base_cls, names, factory):
    """Overrides of a monitored method in the member subclasses (Infimum, Atom, Supremum, ...) are functions
    of their own: a refactoring that adds one must not take those receivers out of the monitor's sight.
    ``factory()`` makes a fresh monitor for each override found (none exists on the pinned tree apart from
    ``Infimum.minimal``, which C18 handles itself)."""
    found = 0
    for mod in (concepts.lattice_members, concepts.lattices):
        for _, cls in sorted(vars(mod).items()):
            if not (isinstance(cls, type) and issubclass(cls, base_cls) and cls is not base_cls):
                continue
            for name in names:
                fn = vars(cls).get(name)
                if fn is None or getattr(fn, '__rv_wrapper__', False) or not callable(fn):
                    continue
                try:
                    attach.attach(cls, name, factory())
                    found += 1
                except Exception as e:
                    COL.harness_error(f'attach_overrides {cls.__name__}.{name}', e)
    if found:
        COL.count('subclass_overrides_monitored', found)
    return found


def build_or_skip(concepts, case):
    """Context for a valid table; a raise here is C19's business, not ours."""
    try:
        return build(concepts, case)
    except core.CaseTimeout:
        raise
    except Exception as e:
        COL.count('ctor_raised_on_valid_table')
        COL.harness_error('Context(...) raised on a valid table (see C19)', e)
        return None


def call(fn, *args, **kwargs):
    """Call code under test; exceptions are judged by the attached monitor."""
    try:
        return fn(*args, **kwargs)
    except core.CaseTimeout:
        raise
    except core.CaseTooLarge:
        raise
    except RecursionError:
        COL.count('driver_saw_RecursionError')
        return RAISED
    except Exception:
        COL.count('driver_saw_exception')
        return RAISED


def materialise(arg):
    """(label list, argument to hand on) for an iterable argument of labels."""
    try:
        it = iter(arg)
    except TypeError:
        return None, arg
    if it is arg:                       # one-shot iterator: read once, hand on a fresh one
        lst = list(arg)
        return lst, iter(lst)
    return list(arg), arg


class Pool:
    """Ring of live objects (contexts, lattices) kept alive across cases."""

    def __init__(self, size=6):
        self.size = size
        self.items = []

    def add(self, item):
        self.items.append(item)
        if len(self.items) > self.size:
            self.items.pop(0)

    def older(self, rng):
        if len(self.items) < 2:
            return None
        return rng.choice(self.items[:-1])


# ---------------------------------------------------------------------------
# lattice views: tie a real Lattice to the shadow lattice of its context

class LatticeView:
    """Members of a real lattice (in iteration order) with their shadow masks."""

    def __init__(self, lattice, sh, cap):
        self.lattice = lattice
        self.sh = sh
        self.sl = sh.lattice(cap)       # first: raises CaseTooLarge cheaply (cached) for big lattices
        self.members = list(lattice)
        self.masks = []
        self.bad_labels = False
        for c in self.members:
            try:
                self.masks.append((sh.omask(c.extent), sh.pmask(c.intent)))
            except KeyError:
                self.masks.append(None)
                self.bad_labels = True
        # shadow index of every real member (None if it is not a concept)
        self.sidx = []
        for m in self.masks:
            k = self.sl.index_of.get(m[0]) if m is not None else None
            self.sidx.append(k if k is not None and self.sl.intents[k] == m[1] else None)
        self.by_id = {id(c): k for k, c in enumerate(self.members)}
        # real member for a shadow index (first occurrence)
        self.real_of = {}
        for k, s in enumerate(self.sidx):
            if s is not None and s not in self.real_of:
                self.real_of[s] = k

    def faithful(self):
        """True iff the real lattice is exactly the shadow concept list in order."""
        return (not self.bad_labels and len(self.members) == self.sl.n
                and self.sidx == list(range(self.sl.n)))


_views = {}
_ties = weakref.WeakKeyDictionary()      # lattice -> its context (kept as long as the lattice lives)


def previsit(members, sh, attrs):
    """Read ``attrs`` of every member once, bottom-up, top-down or shuffled (a pure function of the
    table): lazily computed attributes must not depend on who is asked first.  Returns the mode."""
    how = hash(sh.key()) % 3
    visit = list(range(len(members)))
    if how == 1:
        visit.reverse()
    elif how == 2:
        random.Random(len(members) * 31 + sh.n).shuffle(visit)
    COL.count(('visited_bottom_up', 'visited_top_down', 'visited_shuffled')[how])
    if how:
        try:
            for k in visit:
                for a in attrs:
                    getattr(members[k], a)
        except Exception:
            pass
    return how


def tie(lattice, ctx):
    """Driver-side: remember which context a lattice was obtained from."""
    try:
        _ties[lattice] = weakref.ref(ctx)     # weak: the value must not keep the key alive (ctx caches its lattice)
    except TypeError:        # unhashable / not weak-referenceable: fall back to the private attribute
        pass
    return lattice


def context_of(lattice):
    """The context a lattice was tied to (None if unknown)."""
    try:
        ref = _ties.get(lattice)
        ctx = ref() if ref is not None else None
    except TypeError:
        ctx = None
    if ctx is None:     # optional private name; a refactor must not cause an alarm
        ctx = getattr(lattice, '_context', None)
        if ctx is not None:
            COL.count('lattice_context_via_private_attr')
    return ctx


def view_of(lattice, cap):
    """Cached LatticeView (the cache keeps the lattice alive while it is used)."""
    ent = _views.get(id(lattice))
    if ent is not None and ent.lattice is lattice:
        return ent
    ctx = context_of(lattice)
    if ctx is None:
        raise core.HarnessError('lattice is not tied to a context')
    sh = attach.shadow_of(ctx)
    v = LatticeView(lattice, sh, cap)
    if len(_views) > 64:
        _views.clear()
    _views[id(lattice)] = v
    return v


def drop_views():
    _views.clear()


def failing_calls(concepts, ctx, lat, rng, steps=4):
    """Calls that (are documented to) raise: unknown labels, a custom infimum that is not the bottom,
    out-of-range indexes, foreign arguments.  A failed call must leave nothing behind; the property's
    own calls that follow are judged as usual.  Never raises."""
    objs, props = list(ctx.objects), list(ctx.properties)
    nope = '\x00 no such label \x00'
    for _ in range(steps):
        k = rng.randrange(6 if lat is None else 11)
        try:
            with core.monitor_code():       # the answers of these calls are nobody's business
                if k == 0:
                    ctx.intension(objs[:1] + [nope])
                elif k == 1:
                    ctx.extension([nope] + props[-1:])
                elif k == 2:
                    ctx[nope,]
                elif k == 3:
                    ctx.neighbors([nope])
                elif k == 4 and objs:
                    concepts.lattices.Lattice(ctx, infimum=rng.sample(objs, rng.randint(1, min(len(objs), 3))))
                elif k == 5 and objs:
                    concepts.lattices.Lattice(ctx, infimum=(objs[-1],))
                elif k == 6:
                    lat[nope,]
                elif k == 7:
                    lat[len(lat) + 5]
                elif k == 8:
                    lat([nope])
                elif k == 9:
                    lat.join([object()])
                elif k == 10:
                    list(lat.upset_union([None]))
        except core.CaseTimeout:
            raise
        except BaseException:
            COL.counters['failing_calls_raised'] += 1
    COL.counters['failing_calls'] += steps


def editing_calls(ctx, lat, rng, steps=3):
    """Successful calls whose returned containers are then edited in place by the caller (used as a
    work stack, re-sorted, cleared): what a call hands out is the caller's, later answers must not
    depend on it.  The calls themselves are judged by the attached monitors as usual.  Never raises."""
    objs, props = list(ctx.objects), list(ctx.properties)

    def wreck(x):
        if isinstance(x, list):
            for item in x[:3]:
                wreck(item)
            if x and rng.random() < .7:
                x.pop(rng.randrange(len(x)))
            x.reverse()
            if rng.random() < .5:
                x.append(x[0] if x else ('junk',))
            if rng.random() < .3:
                x.clear()
        elif isinstance(x, dict):
            for v in list(x.values())[:4]:
                wreck(v)
            if x and rng.random() < .5:
                x.pop(next(iter(x)))
        elif isinstance(x, (set, bytearray)):
            x.clear()
    for _ in range(steps):
        k = rng.randrange(7 if lat is None else 12)
        sub = rng.sample(objs, rng.randint(0, min(len(objs), 3)))
        try:
            if k == 0:
                wreck(ctx.neighbors(sub, raw=True))
            elif k == 1:
                wreck(ctx.neighbors(sub))
            elif k == 2:
                wreck(ctx.neighbors([], raw=True))
                for o in objs[:6]:
                    wreck(ctx.neighbors([o], raw=True))
            elif k == 3:
                wreck(ctx.bools)
            elif k == 4:
                wreck(ctx.relations(include_unary=rng.random() < .5))
            elif k == 5:
                wreck(ctx.todict(ignore_lattice=rng.choice([None, True])))
            elif k == 6:
                d = ctx.definition()
                d.add_object('\x00 edit \x00', props[:1])
                d.remove_property(props[0])
            elif k == 7:
                wreck(ctx.todict())
            elif k == 8:
                wreck(lat[:]), wreck(lat[1:3])
            elif k == 9:
                g = lat.graphviz()
                g.node('c0', color='red')
                g.edge('c0', 'c%d' % (len(lat) - 1), style='dashed')
                g.body.reverse()
                g.body.pop()
            elif k == 10:
                import sys
                algos = sys.modules[type(ctx).__module__.split('.')[0]].algorithms
                wreck(algos.get_concepts(ctx))
            elif k == 11:
                c = lat[rng.randrange(len(lat))]
                wreck(list(c.attributes()) if len(c.intent) <= 8 else [])
        except (core.CaseTimeout, core.CaseTooLarge):
            raise
        except Exception:
            COL.counters['editing_calls_raised'] += 1
    COL.counters['returned_containers_edited'] += steps


def interrupted_calls(concepts, ctx, lat, rng, steps=3, first_access=False):
    """Read-only queries that are cut short: an exception (RecursionError, MemoryError,
    KeyboardInterrupt) surfaces at the n-th library line of the call (``faults.interrupted``), or the
    call is made with only a few frames of stack left (``faults.low_stack``).  The aborted call is not
    judged; a context and a lattice are immutable, so everything asked afterwards is judged as usual
    (and some of the calls made with little stack left complete - those are judged, too).
    Calls that construct contexts are left out (their registries are not ours to interrupt).
    Never raises."""
    import pickle
    alg = concepts.algorithms
    objs, props = list(ctx.objects), list(ctx.properties)
    members = None
    if lat is not None and lat is not RAISED:
        try:
            members = list(lat)
        except Exception:
            members = None
    for _ in range(steps):
        so = rng.sample(objs, rng.randint(0, min(len(objs), 4)))
        sp = rng.sample(props, rng.randint(0, min(len(props), 4)))
        thunks = [lambda: ctx.neighbors(so), lambda: ctx.intension(so), lambda: ctx.extension(sp),
                  lambda: ctx[so or objs[:1]], lambda: str(ctx.relations(include_unary=True)),
                  lambda: ctx.todict(ignore_lattice=None), lambda: ctx.tostring(),
                  lambda: alg.get_concepts(ctx), lambda: list(alg.iterconcepts(ctx)), lambda: list(alg.fcbo_dual(ctx)),
                  lambda: list(concepts.lattices.Lattice(ctx))]
        if first_access:
            thunks = [lambda: ctx.lattice, lambda: ctx.lattice, lambda: list(concepts.lattices.Lattice(ctx))]
        elif members:
            a, b, c = (rng.choice(members) for _ in range(3))
            ms = [a, b, c]
            thunks += [lambda: list(a.upset()), lambda: list(b.downset()), lambda: list(lat.upset_union(ms)),
                       lambda: list(lat.downset_union(ms)), lambda: (a | b, a & b), lambda: (lat.join(ms), lat.meet(ms)),
                       lambda: (a <= b, a < b, a.orthogonal_to(b), a.complement_of(b), a.subcontrary_with(b)),
                       lambda: (lat[so or objs[:1]], lat(sp)), lambda: c.minimal(),
                       lambda: list(c.attributes()) if len(c.intent) <= 9 else None,
                       lambda: lat.graphviz() if len(members) <= 150 else None, lambda: str(lat) if len(members) <= 150 else None,
                       lambda: pickle.dumps((ctx, lat)) if len(members) <= 150 else None,
                       lambda: (c.atoms, c.objects, c.properties, str(c)), lambda: list(lat)]
        fn = rng.choice(thunks)
        try:
            if rng.random() < .7:
                n = rng.choice([1, 2, 3, 4, 6, 9, 14, 22, 35, 60, 100, 170, 300, 600])
                exc = rng.choice([RecursionError, RecursionError, MemoryError, KeyboardInterrupt])
                faults.interrupted(fn, n, exc)
            else:
                faults.low_stack(fn, rng.randint(1, 45))
            if rng.random() < .5:
                fn()                    # the same question again, with nothing in the way
        except (core.CaseTimeout, core.CaseTooLarge):
            raise
        except BaseException as e:
            if isinstance(e, (SystemExit, GeneratorExit)):
                raise
            COL.counters['interrupted_calls_ended_otherwise'] += 1
    COL.counters['interrupted_call_attempts'] += steps


_LAST_CTX = [None]


def get_lattice(ctx):
    """``ctx.lattice`` (tied to ``ctx``) or RAISED.  For one context in three the first access comes
    after a few calls that fail (see ``failing_calls``)."""
    import random
    key = 0
    if 'lattice' not in vars(ctx):
        import sys
        import zlib
        try:
            key = zlib.crc32(repr((ctx.shape, ctx.objects[:2], ctx.properties[:2], ctx.bools[:2])).encode())
        except Exception:
            key = 1
        lib = sys.modules.get('concepts')
        if key % 4 == 0:
            failing_calls(lib, ctx, None, random.Random(key))
            COL.counters['first_lattice_access_after_failed_calls'] += 1
        elif key % 4 == 1:
            editing_calls(ctx, None, random.Random(key), 5)
            COL.counters['first_lattice_access_after_edits_of_returned_containers'] += 1
        elif key % 4 == 2 and len(ctx.objects) * len(ctx.properties) <= 400:
            rng_ = random.Random(key)
            # aborted builds that get far: the length of a complete build is measured on a copy first
            total = None
            if key % 8 == 2:
                try:
                    with core.monitor_code():
                        twin = ctx.copy()
                    total = faults.count_lines(lambda: list(lib.lattices.Lattice(twin)))
                except (core.CaseTimeout, core.CaseTooLarge):
                    raise
                except Exception:
                    total = None
            if total:
                for frac in rng_.sample([.3, .5, .7, .8, .9, .95, .98, .995], 3):
                    n_ = max(1, int(total * frac) - rng_.randrange(3))
                    try:
                        faults.interrupted(lambda: ctx.lattice, n_, rng_.choice([RecursionError, KeyboardInterrupt, MemoryError]))
                    except (core.CaseTimeout, core.CaseTooLarge):
                        raise
                    except BaseException:
                        COL.counters['interrupted_calls_ended_otherwise'] += 1
                COL.counters['first_lattice_builds_aborted_late'] += 1
            else:
                interrupted_calls(lib, ctx, None, rng_, 3, first_access=True)
            COL.counters['first_lattice_access_after_interrupted_attempts'] += 1
            # the next lattice that is built belongs to ANOTHER context (the one of an earlier case, of
            # another size): what an aborted build left behind must not leak into it either
            prev = _LAST_CTX[0]() if _LAST_CTX[0] is not None else None
            if prev is not None and prev is not ctx and 'lattice' not in vars(ctx):
                try:
                    l2 = lib.lattices.Lattice(prev)
                    tie(l2, prev)
                    list(l2), l2.infimum.upper_neighbors, l2.supremum.lower_neighbors
                    KEEP.append(l2)
                    COL.counters['another_contexts_lattice_built_right_after_aborted_builds'] += 1
                except (core.CaseTimeout, core.CaseTooLarge):
                    raise
                except Exception:
                    COL.counters['interference_calls_raised'] += 1
            interrupted_calls(lib, ctx, None, random.Random(key + 1), 2)
        if len(ctx.objects) <= 40 and len(ctx.properties) <= 40:
            _LAST_CTX[0] = weakref.ref(ctx)
    fresh = 'lattice' not in vars(ctx)
    cut = fresh and key % 4 == 3 and len(ctx.objects) <= 16 and len(ctx.properties) <= 16
    DEFER[0] = bool(cut)
    try:
        lat = call(lambda: ctx.lattice)
    finally:
        DEFER[0] = False
    if lat is not RAISED:
        tie(lat, ctx)
        if cut:
            first_reads_cut_short(ctx, lat, random.Random(key))
    return lat


DEFER = [False]


def first_reads_cut_short(ctx, lat, rng, times=6):
    """Nobody has read anything from this lattice yet (the construction hooks stood back): its first
    reads - labels, atoms, comparisons, traversals, generating sets, joins, the drawing - are cut short
    by an injected exception or made with hardly any stack left.  Not judged; every later read is."""
    try:
        members = list(lat)
    except Exception:
        return
    if not members or len(members) > 300:
        return
    props = list(ctx.properties)
    for _ in range(times):
        a, b, c = (rng.choice(members) for _ in range(3))
        thunks = [lambda: (a <= b, b < a), lambda: (a >= c, a > b), lambda: a.orthogonal_to(b),
                  lambda: (c.objects, c.properties), lambda: members[0].objects, lambda: c.atoms, lambda: str(c),
                  lambda: next(c.upset(), None), lambda: list(c.downset()), lambda: next(lat.upset_union([a, b]), None),
                  lambda: next(c.attributes(), None) if len(c.intent) <= 10 else None, lambda: c.minimal(),
                  lambda: (a | b, a & b), lambda: lat.join([a, b, c]), lambda: lat(rng.sample(props, min(2, len(props)))),
                  lambda: lat.graphviz(), lambda: (lat.atoms, lat.infimum, lat.supremum), lambda: lat.todict() if hasattr(lat, 'todict') else None]
        fn = rng.choice(thunks)
        try:
            if rng.random() < .5:
                faults.interrupted(fn, rng.choice([1, 2, 3, 4, 6, 9, 13, 20, 30, 45, 70]),
                                   rng.choice([RecursionError, RecursionError, MemoryError, KeyboardInterrupt]))
            else:
                faults.low_stack(fn, rng.randint(1, 40))
            if rng.random() < .3:       # a traversal that was only started, then asked again with little stack
                it = c.upset() if rng.random() < .5 else c.downset()
                next(it, None)
                faults.low_stack(lambda: list(c.upset()), rng.randint(1, 6))
                faults.low_stack(lambda: list(c.downset()), rng.randint(1, 6))
        except (core.CaseTimeout, core.CaseTooLarge):
            raise
        except BaseException as e:
            if isinstance(e, (SystemExit, GeneratorExit)):
                raise
            COL.counters['interrupted_calls_ended_otherwise'] += 1
    COL.counters['first_reads_of_a_fresh_lattice_cut_short'] += times


def table_stats(sh):
    return {'n': sh.n, 'm': sh.m}


def describe(sh):
    return {'objects': list(sh.objects), 'properties': list(sh.properties),
            'rows': [list(bits(r)) for r in sh.rows]}


# ---------------------------------------------------------------------------
# argument plumbing and generator proxies for monitors

def get_arg(args, kwargs, pos, name, default=None):
    if len(args) > pos:
        return args[pos]
    return kwargs.get(name, default)


def with_arg(args, kwargs, pos, name, value):
    if len(args) > pos:
        return args[:pos] + (value,) + args[pos + 1:], kwargs
    kwargs = dict(kwargs)
    kwargs[name] = value
    return args, kwargs


INTENDED = {}     # id(container) -> (container, items the driver put in; it never edits them)


def declare(container):
    """The driver passes ``container`` to several calls and never edits it in between: every one of
    those calls is judged against the items it had when it was declared."""
    INTENDED[id(container)] = (container, list(container))
    return container


def undeclare(container):
    INTENDED.pop(id(container), None)


def read_iterable(args, kwargs, pos, name):
    """Return (items or None, args, kwargs): a one-shot iterator argument is read
    once and replaced by a fresh one-shot iterator over the same items."""
    arg = get_arg(args, kwargs, pos, name)
    ent = INTENDED.get(id(arg))
    if ent is not None and ent[0] is arg:
        COL.count('declared_collection_arguments')
        try:
            now = list(arg)
            if sorted(map(id, now)) != sorted(map(id, ent[1])):
                COL.count('declared_collection_found_edited_by_an_earlier_call')
        except Exception:
            pass
        return list(ent[1]), args, kwargs
    try:
        it = iter(arg)
    except TypeError:
        return None, args, kwargs
    if it is arg:
        items = list(arg)
        args, kwargs = with_arg(args, kwargs, pos, name, iter(items))
        COL.count('one_shot_arguments_rewrapped')
        return items, args, kwargs
    return list(arg), args, kwargs


def recording(gen_obj, judge, where, limit=None):
    """Iterator proxy: yields from ``gen_obj``; ``judge(items, complete, exc)`` runs
    as monitor code when the run ends (exhausted, abandoned or raised).

    ``limit``: optional callable giving the number of items a correct run can yield at most (None if
    unknown).  A run that goes beyond it is stopped there and judged as an abandoned run (more items than
    distinct correct ones exist, so a repeat or a wrong item is among them): a generator that has lost its
    way must not eat the memory and the CPU budget of the shard before the verdict is out."""
    def proxy():
        items = []
        complete = False
        exc = None
        thrown_in = None
        bound = None if limit is None else -1       # -1: not asked yet
        it = iter(gen_obj)
        try:
            while True:
                try:
                    x = next(it)
                except StopIteration:
                    complete = True
                    break
                items.append(x)
                if bound is not None and len(items) > 16:
                    if bound == -1:
                        COL.depth += 1
                        try:
                            bound = limit()
                        except (core.CaseTimeout, GeneratorExit):
                            raise
                        except BaseException:
                            bound = None
                        finally:
                            COL.depth -= 1
                    if bound is not None and len(items) > bound:
                        COL.counters['runaway_generators_stopped_at_the_number_of_possible_items'] += 1
                        close = getattr(it, 'close', None)
                        if close is not None:
                            close()
                        break
                try:
                    yield x
                except (GeneratorExit, core.CaseTimeout):
                    raise
                except BaseException as thrown:
                    # thrown in by the consumer (generator.throw): hand it on to the real generator; the
                    # same exception coming back out is the consumer's own, not a failure of the library
                    thrown_in = thrown
                    COL.counters['exceptions_thrown_into_generators'] += 1
                    fwd = getattr(it, 'throw', None)
                    if fwd is not None:
                        try:
                            fwd(thrown)
                        except BaseException as back:
                            if back is not thrown:
                                thrown_in = None
                            raise
                    raise thrown
        except GeneratorExit:
            close = getattr(it, 'close', None)
            if close is not None:
                close()
            raise
        except core.CaseTimeout:
            raise
        except BaseException as e:
            if isinstance(e, faults.Injected) or (COL.low_limit and isinstance(e, RecursionError)):
                COL.counters['calls_cut_short_not_judged'] += 1      # judged as a prefix only
            elif e is not thrown_in:
                exc = e
            raise
        finally:
            COL.depth += 1
            low_now = COL.low_limit
            if low_now:
                import sys as _sys
                _sys.setrecursionlimit(COL.high_limit)
            try:
                judge(items, complete, exc)
            except core.CaseTooLarge:
                COL.counters['skipped_too_large_events'] += 1
            except core.CaseTimeout:
                raise
            except Exception as e:
                COL.harness_error(where + '.judge', e)
            finally:
                COL.depth -= 1
                if low_now and COL.low_limit:
                    _sys.setrecursionlimit(COL.low_limit)
    return proxy()


def stored_list_in_scope(ctx, stored, unordered, cap):
    """Lattice._fromlist input is in scope iff raw/unordered is set or the stored list is
    the documented canonical encoding (shortlex concepts, shortlex upper, longlex lower)."""
    if unordered:
        return True
    from ..shadow import bits
    sh = attach.shadow_of(ctx)
    sl = sh.lattice(cap)
    try:
        got = [(tuple(e), tuple(i), tuple(u), tuple(l)) for e, i, u, l in stored]
    except Exception:
        return False
    want = [(bits(sl.extents[k]), bits(sl.intents[k]), tuple(sl.upper(k)), tuple(sl.lower(k)))
            for k in range(sl.n)]
    return got == want


_BETWEEN = 0


def registry_history(concepts, case, rng, queries):
    """A context is pickled and discarded, a same-label context with another table is built (its
    classes may land where the discarded ones lived) and pickled too, then both pickles are loaded:
    every live and every loaded context must keep answering from its own table."""
    import gc
    import pickle
    n, m = len(case['objects']), len(case['properties'])
    if n * m > 64:
        return
    objects, properties = list(case['objects']), list(case['properties'])
    rows_a = list(case['rows'])
    rows_b = [r ^ ((1 << m) - 1) if i % 2 else r ^ 1 for i, r in enumerate(rows_a)]
    bools = lambda rows: [tuple(bool(r >> j & 1) for j in range(m)) for r in rows]
    live = []
    for filler in range(rng.randint(0, 3)):
        live.append(concepts.Context(['x%d' % filler], ['y%d' % filler], [(True,)]))
    a = call(concepts.Context, objects, properties, bools(rows_a))
    if a is RAISED:
        return
    blob_a = pickle.dumps(a)
    del a
    gc.collect()
    # where the next classes land depends on what is allocated in between: 0-7 unrelated contexts,
    # rotating from one history to the next
    global _BETWEEN
    _BETWEEN = (_BETWEEN + 1) % 8
    for filler in range(_BETWEEN):
        live.append(concepts.Context(['u%d' % filler], ['v%d' % filler], [(False,)]))
    COL.count('registry_history_fillers_%d' % _BETWEEN)
    b = call(concepts.Context, objects, properties, bools(rows_b))
    if b is RAISED:
        return
    blob_b = pickle.dumps(b)
    a2 = call(pickle.loads, blob_a)
    b2 = call(pickle.loads, blob_b)
    COL.count('registry_histories')
    for c in (b, a2, b2, b):
        if c is not RAISED:
            queries(c)


# ---------------------------------------------------------------------------
# interference sessions: a short random walk over the WHOLE public API of a context and its
# lattice.  The property being checked judges its own calls; all the others are there to disturb
# shared state (memo tables, caches, class-level closures) between those calls.

class Reentrant:
    """A re-iterable collection whose iteration itself uses the library: before it hands out an item it
    calls ``poke(item)`` (a look-up / a traversal / another n-ary call on the same context or lattice) -
    what a caller's generator pipeline does when it filters with the object it is about to query.
    The outer call must be unaffected."""

    def __init__(self, items, poke):
        self.items, self.poke = list(items), poke

    def __iter__(self):
        for x in self.items:
            try:
                self.poke(x)
            except (core.CaseTimeout, core.CaseTooLarge):
                raise
            except Exception:
                COL.counters['reentrant_inner_call_raised'] += 1
            COL.counters['reentrant_items_handed_out'] += 1
            yield x

    def __len__(self):
        return len(self.items)


def reentrant_labels(labels, ctx):
    objs = set(ctx.objects)

    def poke(x):
        if x in objs:
            ctx[(x,)], ctx.intension([x])
        else:
            ctx[(x,)], ctx.extension([x])
    return Reentrant(labels, poke)


def reentrant_concepts(members, lat):
    def poke(c):
        lat.join([c, c]), lat.meet(iter([c])), next(c.upset(), None), next(lat.downset_union([c]), None), c | c, lat[c.extent]
    return Reentrant(members, poke)


class StrLabel(str):
    """A str subclass instance: equal to and hashing like the plain label."""


class ShownLabel(str):
    """A str subclass instance whose str()/repr()/format() give another text (a str-enum member does
    that): still equal to and hashing like the plain label, which is what names it."""

    def __str__(self):
        return '<' + str.__str__(self) + '>'

    def __repr__(self):
        return 'ShownLabel.' + str.__str__(self).upper()

    def __format__(self, spec):
        return format('<' + str.__str__(self) + '>', spec)


def argform(labels, rng, iterable_ok=True, ctx=None):
    """One of many equivalent representations of a collection of labels."""
    labels = list(labels)
    k = rng.randrange(10 if iterable_ok else 8)
    if ctx is not None and rng.random() < .12:
        return reentrant_labels(labels, ctx)
    if k == 0:
        return tuple(labels)
    if k == 1:
        return list(reversed(labels))
    if k == 2:
        return set(labels)
    if k == 3:
        return frozenset(labels)
    if k == 4:
        return dict.fromkeys(labels)
    if k == 5:
        return dict.fromkeys(labels).keys()
    if k == 6:      # equal but distinct str objects
        return [(x + '\0')[:-1] if len(x) > 1 else x for x in labels]
    if k == 7:
        cls = StrLabel if rng.random() < .5 else ShownLabel
        return [cls(x) for x in labels] + labels[:1]
    if k == 8:
        return (x for x in list(labels))
    return iter(labels + labels[-1:])


class _Thrown(Exception):
    """What a consumer throws into a generator it no longer wants."""


def abuse_generators(concepts, ctx, lat, members, rng):
    """Generators are closed early or have an exception thrown in (a ``with``/``try`` block unwinding in
    the consumer); the same traversal is then started again and consumed.  Never raises."""
    alg = concepts.algorithms
    c = rng.choice(members)
    ms = [rng.choice(members) for _ in range(3)]
    makers = [c.upset, c.downset, lambda: lat.upset_union(ms), lambda: lat.downset_union(ms),
              lambda: alg.fast_generate_from(ctx), lambda: alg.fcbo_dual(ctx), lambda: alg.iterconcepts(ctx),
              lambda: iter(lat)]
    if len(c.intent) <= 9:
        makers.append(c.attributes)
    for make in rng.sample(makers, 3):
        try:
            it = make()
            for _ in range(rng.randint(0, 2)):
                next(it, None)
            if rng.random() < .5 and hasattr(it, 'throw'):
                try:
                    it.throw(_Thrown('consumer gave up'))
                except (_Thrown, StopIteration):
                    pass
            elif hasattr(it, 'close'):
                it.close()
            list(make())
            COL.counters['generators_closed_or_thrown_into_then_restarted'] += 1
        except (core.CaseTimeout, core.CaseTooLarge):
            raise
        except Exception:
            COL.counters['interference_calls_raised'] += 1


KEEP = collections.deque(maxlen=6)     # objects made by interference steps stay alive for a while


def interference(concepts, ctx, lat, rng, steps=20):
    """Random calls over the public API (results ignored here: the attached monitors judge the ones
    they own).  Never raises."""
    objs, props = list(ctx.objects), list(ctx.properties)
    members = None
    for _ in range(steps):
        try:
            if members is None and lat is not None and lat is not RAISED:
                members = list(lat)
            sub_o = rng.sample(objs, rng.randint(0, min(len(objs), 4)))
            sub_p = rng.sample(props, rng.randint(0, min(len(props), 4)))
            k = rng.randrange(28 if members else 10)
            if k == 9:
                failing_calls(concepts, ctx, lat if members else None, rng, 1)
                continue
            if k == 27:
                k = 9
            if k in (5, 6, 19) and rng.random() < .5:
                editing_calls(ctx, lat if members else None, rng, 1)
                continue
            if k in (7, 8, 18) and rng.random() < .5:
                interrupted_calls(concepts, ctx, lat if members else None, rng, 1)
                continue
            if k == 0:
                ctx.intension(argform(sub_o, rng, ctx=ctx))
            elif k == 1:
                ctx.extension(argform(sub_p, rng, ctx=ctx))
            elif k == 2 and sub_o:
                ctx[argform(sub_o, rng, iterable_ok=False, ctx=ctx)]
            elif k == 3 and sub_p:
                ctx[argform(sub_p, rng, iterable_ok=False, ctx=ctx)]
            elif k == 4:
                ctx.neighbors(argform(sub_o, rng, ctx=ctx))
            elif k == 5:
                str(ctx.relations(include_unary=rng.random() < .5))
            elif k == 6:
                ctx.todict(ignore_lattice=rng.choice([None, True, False]))
            elif k == 7:
                ctx.tostring(rng.choice(['table', 'cxt', 'csv'])), ctx.crc32(), ctx.shape, ctx.fill_ratio
            elif k == 8:
                ctx.definition(), ctx == ctx.copy()
            elif k == 24:      # another lattice over the very same context object
                KEEP.append(concepts.lattices.Lattice(ctx))
                list(KEEP[-1])
            elif k == 25:
                import copy
                KEEP.append(copy.copy(lat))
                KEEP[-1][0], KEEP[-1].supremum
            elif k == 26:
                import copy
                KEEP.append(copy.deepcopy(rng.choice(members)))
                KEEP[-1].lattice, KEEP[-1].upper_neighbors
            elif k == 9:
                lat(argform(sub_p, rng))
            elif k == 10 and (sub_o or sub_p):
                lat[tuple(sub_o or sub_p)]
            elif k == 11:
                lat[rng.randrange(len(members))], lat[-1], lat[:2], len(lat)
            elif k == 12:
                a, b = rng.choice(members), rng.choice(members)
                a | b, a & b, a.join(b), b.meet(a)
            elif k == 13:
                ms = [rng.choice(members) for _ in range(rng.randint(0, 4))]
                if rng.random() < .3:
                    ms = reentrant_concepts(ms, lat)
                lat.join(ms), lat.meet(ms if isinstance(ms, Reentrant) else tuple(ms))
            elif k == 14:
                a, b = rng.choice(members), rng.choice(members)
                a <= b, a < b, a >= b, a > b, a.incompatible_with(b), a.complement_of(b), \
                    a.subcontrary_with(b), a.orthogonal_to(b)
            elif k == 15:
                c = rng.choice(members)
                list(c.upset()), list(c.downset())
            elif k == 16:
                ms = [rng.choice(members) for _ in range(rng.randint(0, 4))]
                if rng.random() < .3:
                    rms = reentrant_concepts(ms, lat)
                    list(lat.upset_union(rms)), list(lat.downset_union(rms))
                list(lat.upset_union(ms)), list(lat.downset_union(set(ms)))
            elif k == 17:
                c = rng.choice(members)
                if len(c.intent) <= 10:
                    list(c.attributes())
                c.minimal()
            elif k == 18:
                c = rng.choice(members)
                str(c), repr(c), c.index, c.dindex, c.objects, c.properties, c.atoms, tuple(c)
            elif k == 19 and len(members) <= 150:
                str(lat), repr(lat), lat.atoms, lat.infimum, lat.supremum
            elif k == 20 and len(members) <= 200:
                lat.graphviz()
            elif k == 21 and len(members) <= 200:
                import pickle
                pickle.loads(pickle.dumps((ctx, lat), protocol=rng.choice([0, 1, 2, 4, 5])))
            elif k == 22:
                it = iter(lat)
                next(it, None)
                list(lat)
                # the experimental traversal, run to its normal end, right before ordinary ones
                ms = rng.sample(members, min(len(members), rng.randint(1, 3)))
                list(lat.upset_generalization(ms))
                c = rng.choice(members)
                list(c.downset()), list(c.upset()), list(lat.upset_union(ms)), list(lat.downset_union(ms))
            elif k == 23:
                concepts.algorithms.get_concepts(ctx)
                next(concepts.algorithms.fcbo_dual(ctx), None)
                if rng.random() < .5:
                    abuse_generators(concepts, ctx, lat, members, rng)
        except core.CaseTimeout:
            raise
        except core.CaseTooLarge:
            pass
        except Exception:
            COL.counters['interference_calls_raised'] += 1
    COL.counters['interference_calls'] += steps
    if members and len(members) <= 80:
        sibling_workload(concepts, ctx, lat, rng)


def sibling_lattices(concepts, ctx, lat, rng, k=2):
    """Other Lattice objects over the same table while ``ctx.lattice`` stays what it is: a shallow copy, a
    second ``Lattice(context)``, the lattice pickled / deep-copied on its own (it brings a context of its
    own along).  Their members are concepts of *that* lattice: whatever is asked of them is answered
    within it.  Returns [(how, lattice)], each tied to its context."""
    import copy
    import pickle
    makers = [('copy.copy', lambda: copy.copy(lat), True),
              ('Lattice(context)', lambda: concepts.lattices.Lattice(ctx), True),
              ('pickled-alone', lambda: pickle.loads(pickle.dumps(lat, protocol=rng.choice([2, 4, 5]))), False),
              ('deepcopied-alone', lambda: copy.deepcopy(lat), False)]
    out = []
    for how, make, same_ctx in rng.sample(makers, k):
        try:
            l2 = make()
            if same_ctx:
                tie(l2, ctx)
            else:
                c2 = getattr(l2, '_context', None)
                if c2 is None:
                    COL.counters['sibling_lattice_without_reachable_context'] += 1
                    continue
                tie(l2, c2)
                KEEP.append(c2)
        except (core.CaseTimeout, core.CaseTooLarge):
            raise
        except Exception:
            COL.counters['sibling_lattice_not_made'] += 1
            continue
        KEEP.append(l2)
        COL.counters['sibling_lattices:' + how] += 1
        out.append((how, l2))
    return out


def exercise_lattice(lat, rng, pairs=60):
    """Member-level questions asked of ``lat`` (judged by whatever monitors are attached).  Never raises."""
    def attempt(fn):
        try:
            return fn()
        except (core.CaseTimeout, core.CaseTooLarge):
            raise
        except Exception:
            COL.counters['exercise_calls_raised'] += 1
            return RAISED
    members = attempt(lambda: list(lat))
    if members is RAISED or not members:
        return
    n = len(members)
    attempt(lambda: (len(lat), lat.infimum, lat.supremum, lat.atoms, lat[0], lat[-1]))
    for _ in range(pairs):
        a, b = members[rng.randrange(n)], members[rng.randrange(n)]
        attempt(lambda: (a | b, a & b, a.join(b), b.meet(a)))
        attempt(lambda: (a <= b, a < b, a >= b, a > b, a.incompatible_with(b), a.complement_of(b),
                         a.subcontrary_with(b), a.orthogonal_to(b)))
    for c in rng.sample(members, min(n, 25)):
        attempt(c.minimal)
        if len(c.intent) <= 8:
            attempt(lambda: list(c.attributes()))
        attempt(lambda: (lat[c.extent] if c.extent else None, lat(c.intent), str(c), c.atoms, c.objects, c.properties))
        attempt(lambda: (list(c.upset()), list(c.downset())))
    for _ in range(8):
        ms = [members[rng.randrange(n)] for _ in range(rng.randint(0, 4))]
        attempt(lambda: (lat.join(ms), lat.meet(ms), list(lat.upset_union(ms)), list(lat.downset_union(ms))))
    if n <= 60:
        attempt(lat.graphviz)
        attempt(lambda: str(lat))


def sibling_workload(concepts, ctx, lat, rng):
    for how, l2 in sibling_lattices(concepts, ctx, lat, rng):
        exercise_lattice(l2, rng)
        # ... and the lattice the context holds is asked again afterwards
        COL.counters['sibling_lattices_exercised'] += 1
    try:
        ms = list(lat)
        a, b = rng.choice(ms), rng.choice(ms)
        a | b, a & b, lat.join([a, b]), lat.meet([a, b]), list(a.upset()), a.minimal()
    except (core.CaseTimeout, core.CaseTooLarge):
        raise
    except Exception:
        COL.counters['interference_calls_raised'] += 1
