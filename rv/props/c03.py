"""C03 - the lattice contains exactly the formal concepts of the context, once each."""

from .. import attach, gen, core
from ..attach import Monitor
from ..core import COL
from . import common
from .common import call, RAISED

CAP = {'quick': 1500, 'thorough': 4000}
BIGCAP = 70000
STATE = {'cap': None}      # per-case cap (BIGLAT cases raise it)

META = {
    'rule': ('cases: EXH (every table <= 3x3; thorough also 3x4, 4x3), stratified random, scales '
             '(nominal/ordinal/interordinal/contranominal/antichain/block, appositions) with '
             'decorations (duplicate/full/empty/intersection rows and columns), wide axes. Events: '
             'Lattice construction hook, every iter(lattice) (recording proxy, judged at '
             'exhaustion), len(lattice), and the raw Lindig generator behind Context._lattice. '
             'Oracle: no pair twice; every pair satisfies A\'=B and B\'=A by direct derivation; the '
             'set equals the shadow concept set (closure of the row intents under intersection). '
             'distinct_nontrivial = distinct tables with >= 3 concepts.'),
    'evaluation_counters': ['judged_construction', 'judged_iter', 'judged_len', 'judged_raw_generator'],
    'required_counters': ['judged_construction', 'judged_iter', 'judged_len',
                          'tables_with_duplicate_rows', 'tables_with_nonempty_bottom',
                          'tables_all_crosses'],
    'shards': {'quick': 16, 'thorough': 16},
    'exhaustive': {'quick': 'all 682 boolean tables with <= 3 objects and <= 3 properties',
                   'thorough': 'all boolean tables <= 3x3 plus all 3x4, 4x3 and 4x4 tables (74 410 tables)'},
    'assumptions': ['concept members are read through Concept.extent/.intent'],
}
META['rule'] += (' BIGLAT: additionally the Boolean lattice of 16 384 concepts (contranominal scale 14) in the quick '
                 'tier and those of 32 768 and 65 536 concepts in the thorough tier.')


def judge_pairs(sh, pairs, cap, where, complete=True):
    """pairs: list of (extent labels, intent labels)."""
    seen = set()
    masks = []
    for ext, int_ in pairs:
        try:
            e, i = sh.omask(ext), sh.pmask(int_)
        except KeyError:
            COL.violation(where, f'{where}:unknown-label-in-concept', None, [ext, int_])
            return
        if sh.olabels(e) != tuple(ext) or sh.plabels(i) != tuple(int_):
            COL.violation(where, f'{where}:members-not-in-context-order-or-repeated', None, [ext, int_])
        if e in seen:
            COL.violation(where, f'{where}:concept-repeated', 'each concept once', [ext, int_])
        seen.add(e)
        if sh.intension(e) != i or sh.extension(i) != e:
            COL.violation(where, f'{where}:pair-is-not-a-formal-concept',
                          [sh.olabels(sh.extension(i)), sh.plabels(sh.intension(e))], [ext, int_])
        masks.append((e, i))
    if not complete:
        return
    sl = sh.lattice(cap)
    want = set(zip(sl.extents, sl.intents))
    got = set(masks)
    if got != want:
        missing = sorted(want - got)[:5]
        extra = sorted(got - want)[:5]
        COL.violation(where, f'{where}:concept-set-differs',
                      {'n': len(want), 'missing': [[sh.olabels(e), sh.plabels(i)] for e, i in missing]},
                      {'n': len(got), 'extra': [[sh.olabels(e), sh.plabels(i)] for e, i in extra]})
    if sl.n >= 3:
        COL.nontrivial(sh.key())
    return sl


def _pairs_of(members):
    return [(tuple(c.extent), tuple(c.intent)) for c in members]


class InitHook(Monitor):
    def __init__(self, cap):
        self.cap = cap

    def after(self, token, args, kwargs, result):
        lat = args[0]
        ctx = common.get_arg(args, kwargs, 1, 'context')
        infimum = common.get_arg(args, kwargs, 2, 'infimum', ())
        if infimum:
            COL.count('out_of_scope_custom_infimum')
            return
        common.tie(lat, ctx)
        if common.DEFER[0]:
            COL.count('construction_hook_deferred_to_the_driver')
            return
        sh = attach.shadow_of(ctx)
        COL.count('judged_construction')
        judge_pairs(sh, _pairs_of(list(lat)), STATE['cap'] or self.cap, 'construction')


class IterMonitor(Monitor):
    def __init__(self, cap):
        self.cap = cap

    def after(self, token, args, kwargs, result):
        lat = args[0]
        ctx = common.context_of(lat)
        if ctx is None:
            COL.count('untied_lattice_skipped')
            return
        sh = attach.shadow_of(ctx)
        cap = STATE['cap'] or self.cap

        def judge(items, complete, exc):
            COL.count('judged_iter')
            if not complete:
                COL.count('judged_iter_abandoned')
            judge_pairs(sh, _pairs_of(items), cap, 'iter', complete and exc is None)
        return attach.Replace(common.recording(result, judge, 'Lattice.__iter__'))


class LenMonitor(Monitor):
    def __init__(self, cap):
        self.cap = cap

    def after(self, token, args, kwargs, result):
        lat = args[0]
        ctx = common.context_of(lat)
        if ctx is None:
            COL.count('untied_lattice_skipped')
            return
        sh = attach.shadow_of(ctx)
        sl = sh.lattice(STATE['cap'] or self.cap)
        COL.count('judged_len')
        if result != sl.n:
            COL.violation('len', 'len:differs-from-number-of-concepts', sl.n, result)


class RawGenerator(Monitor):
    """Context._lattice(infimum): the Lindig generator (optional private hook)."""
    def __init__(self, cap):
        self.cap = cap

    def after(self, token, args, kwargs, result):
        ctx = args[0]
        if common.get_arg(args, kwargs, 1, 'infimum', ()):
            return
        sh = attach.shadow_of(ctx)
        cap = STATE['cap'] or self.cap

        def judge(items, complete, exc):
            COL.count('judged_raw_generator')
            pairs = []
            for it in items:
                try:
                    pairs.append((tuple(it[0].members()), tuple(it[1].members())))
                except Exception:
                    COL.count('raw_generator_item_undecodable')
                    return
            judge_pairs(sh, pairs, cap, 'lindig', complete and exc is None)
        def limit():
            try:
                return sh.lattice(cap).n
            except core.CaseTooLarge:
                return None
        return attach.Replace(common.recording(result, judge, 'Context._lattice', limit))


def setup(concepts, spec):
    from .. import probes
    probes.install(['lindig'])
    cap = CAP[spec['tier']]
    attach.attach_ctor(concepts)
    attach.attach(concepts.lattices.Lattice, '__iter__', IterMonitor(cap))
    attach.attach(concepts.lattices.Lattice, '__len__', LenMonitor(cap))
    try:
        attach.attach(concepts.lattices.Lattice, '__init__', InitHook(cap))
    except (KeyError, core.HarnessError):
        COL.count('hook_unavailable_Lattice.__init__')
    try:
        attach.attach(concepts.Context, '_lattice', RawGenerator(cap))
    except (KeyError, core.HarnessError):
        COL.count('hook_unavailable_Context._lattice')
    global POOL
    POOL = common.Pool(5)


def cases(tier, seed, spec):
    # a few contexts with thousands of objects and a tiny lattice (size thresholds in the enumeration)
    # (only the sparse ones: Lindig costs about |objects|^2 big-int operations per concept with a
    # large extent, a dense 6 000-object table takes minutes)
    yield from (c for c in gen.huge(seed, 8 if tier == 'quick' else 32)
                if c['fam'].endswith('tall') and len(c['objects']) > 4300 and sum(1 for r in c['rows'] if r) < 200)
    yield from gen.biglat(tier, quick_sizes=(14,))
    yield from gen.ctx_stream(tier, seed)


def run_case(concepts, case, spec):
    rng = common.rng_for(case, spec)
    ctx = common.build_or_skip(concepts, case)
    if ctx is None:
        return
    sh = attach.shadow_of(ctx)
    big = case['fam'].startswith('BIGLAT')
    cap = BIGCAP if big else CAP[spec['tier']]
    STATE['cap'] = cap
    if big:
        COL.count('biglat_cases')
    sl = sh.lattice(cap)
    if len(set(sh.rows)) < sh.n:
        COL.count('tables_with_duplicate_rows')
    if sl.extents[0]:
        COL.count('tables_with_nonempty_bottom')
    if sl.n == 1:
        COL.count('tables_all_crosses')
    if any(r & s not in (r, s) and (r & s) in sh.rows for r in sh.rows for s in sh.rows):
        COL.count('tables_with_intersection_rows')
    lat = common.get_lattice(ctx)
    if lat is RAISED:
        COL.count('judged_construction')
        COL.violation('driver', 'construction:raised', f'{sl.n} concepts', 'exception from context.lattice')
        return
    COL.sample({'table': case, 'n_concepts': sl.n})
    members = call(list, lat)
    n = call(len, lat)
    if members is RAISED or n is RAISED:
        COL.violation('driver', 'iter-or-len:raised', f'{sl.n} concepts', 'exception')
        return
    # driver-side: bottom and top present (closure of {} and all objects)
    exts = {tuple(c.extent) for c in members}
    if sh.olabels(sh.closure_o(0)[0]) not in exts or sh.olabels(sh.ALLO) not in exts:
        COL.violation('driver', 'bottom-or-top-missing', None, sorted(exts)[:6])
    if rng.random() < .3:           # abandoned iteration
        it = iter(lat)
        for _ in range(rng.randint(0, 2)):
            next(it, None)
        del it
    if hash(gen.table_key(case)) % 4 == 0:      # a second lattice built on the very same context object
        lat2 = call(concepts.lattices.Lattice, ctx)
        if lat2 is not RAISED:
            common.tie(lat2, ctx)
            call(list, lat2)
            call(len, lat2)
            COL.count('second_lattice_on_same_context')
    if hash(gen.table_key(case)) % 5 == 1:      # the cached lattice is dropped and computed again
        vars(ctx).pop('lattice', None)
        lat3 = common.get_lattice(ctx)
        if lat3 is not RAISED:
            call(list, lat3)
            COL.count('lattice_recomputed_after_dropping_the_cache')
    if rng.random() < .3:           # two iterations of one lattice alive at once
        it1 = iter(lat)
        next(it1, None)
        call(list, lat)
        call(list, it1)
        COL.count('interleaved_iterations')
    if len(ctx.objects) <= 12 and len(ctx.properties) <= 12:
        common.interference(concepts, ctx, lat, rng, 15)
        call(list, lat)
        call(len, lat)
        COL.count('asked_again_after_interference')
    # near relatives built and asked for their lattice RIGHT AFTER this one (what a "most recent result" memo keyed
    # by part of a context's identity would confuse): the same rows plus a trailing empty property / a trailing
    # empty object / a trailing full property, the same rows under other labels, then the same table again
    if hash(gen.table_key(case)) % 3 == 2 and len(case['objects']) <= 40 and len(case['properties']) <= 40 \
            and not case.get('via') and not case.get('subclass') and 'twin_rows' not in case:
        o, p, rows = list(case['objects']), list(case['properties']), list(case['rows'])
        m = len(p)
        relatives = [dict(case, properties=p + ['zz·extra·property'], rows=rows),
                     dict(case, objects=o + ['zz·extra·object'], rows=rows + [0]),
                     dict(case, properties=p + ['zz·full·property'], rows=[r | 1 << m for r in rows]),
                     dict(case, objects=[x + '·' for x in o], properties=[x + '·' for x in p], rows=rows),
                     dict(case)]
        rng.shuffle(relatives)
        for rel in relatives[:3] + [dict(case)]:
            c2 = common.build_or_skip(concepts, rel)
            if c2 is None:
                continue
            l2 = common.get_lattice(c2)
            if l2 is not RAISED:
                call(list, l2)
                call(len, l2)
        COL.count('near_relatives_built_right_after')
    old = POOL.older(rng)
    if old is not None:
        call(list, old)
        call(len, old)
        COL.count('session_requeries')
    POOL.add(lat)
