"""C16 - relations() classifies each pair of contingent properties once and correctly."""

import itertools

from .. import attach, gen, core
from ..attach import Monitor
from ..core import COL
from . import common
from .common import call, RAISED

RANK = {'equivalent': 1, 'complement': 2, 'incompatible': 3, 'implication': 4,
        'subcontrary': 6, 'orthogonal': 7,
        'contingency': 0, 'contradiction': -2, 'tautology': -1}

META = {
    'rule': ('cases: the standard context stream (EXH 3x3 contains every table with 0 or 1 '
             'contingent property, equal and complementary columns) plus targeted tables (only '
             'orthogonal pairs, all-equal columns, single column), WIDEPROPS (520-700 contingent properties) '
             'and TILED (150-700 properties x 90-2 400 objects, columns repeated from a pool of nested, '
             'complementary and disjoint columns: > 20 million pair x object cells). Events: Context.relations('
             'include_unary in {False, True}), str(result), result.tostring(exclude_orthogonal in '
             '{False, True}). Oracle from the shadow columns: exactly one entry per unordered pair '
             'of contingent properties, kind determined by which of both/only-left/only-right/'
             'neither occur, implication oriented narrower -> wider, one unary entry per property '
             'when requested, list order = stable sort of generation order by the documented '
             'rank; printing returns a string for every context, including the empty list, and shows '
             'the names of every listed entry (layout not judged). distinct_nontrivial = distinct tables with '
             '>= 2 contingent properties.'),
    'evaluation_counters': ['judged_relations', 'judged_str', 'judged_tostring'],
    'required_counters': ['judged_relations', 'judged_relations_unary', 'judged_str', 'judged_tostring',
                          'tables_with_0_contingent', 'tables_with_1_contingent',
                          'tables_with_only_orthogonal_pairs']
                         + ['kind_' + k for k in RANK],
    'shards': {'quick': 16, 'thorough': 16},
    'exhaustive': {'quick': 'all 682 boolean tables <= 3x3', 'thorough': 'all boolean tables <= 3x3, 3x4, 4x3, 4x4'},
    'assumptions': ['entries are read through .kind/.left/.right/.order'],
}


def expected(sh, include_unary):
    """List of (kind, left, right) in the documented order."""
    ALL = sh.ALLO
    unary = []
    for j, p in enumerate(sh.properties):
        c = sh.cols[j]
        unary.append(('tautology' if c == ALL else 'contradiction' if c == 0 else 'contingency', p, ''))
    cont = [j for j in range(sh.m) if sh.cols[j] not in (0, ALL)]
    binary = []
    for a, b in itertools.combinations(cont, 2):
        ca, cb = sh.cols[a], sh.cols[b]
        tt, tf, ft, ff = bool(ca & cb), bool(ca & ~cb), bool(~ca & cb & ALL), bool(~(ca | cb) & ALL)
        l, r = sh.properties[a], sh.properties[b]
        pat = (tt, tf, ft, ff)
        if pat == (True, False, False, True):
            e = ('equivalent', l, r)
        elif pat == (False, True, True, False):
            e = ('complement', l, r)
        elif pat == (False, True, True, True):
            e = ('incompatible', l, r)
        elif pat == (True, False, True, True):
            e = ('implication', l, r)        # left narrower: no object has only left
        elif pat == (True, True, False, True):
            e = ('implication', r, l)        # right narrower
        elif pat == (True, True, True, False):
            e = ('subcontrary', l, r)
        elif pat == (True, True, True, True):
            e = ('orthogonal', l, r)
        else:
            raise core.HarnessError(f'impossible pattern {pat} for contingent columns')
        binary.append(e)
    members = (unary + binary) if include_unary else binary
    return sorted(members, key=lambda e: RANK[e[0]]), len(cont)   # sorted() is stable


def entries_of(result):
    out = []
    for r in result:
        out.append((r.kind, r.left, getattr(r, 'right', '')))
    return out


class RelationsMonitor(Monitor):
    def after(self, token, args, kwargs, result):
        ctx = args[0]
        inc = bool(common.get_arg(args, kwargs, 1, 'include_unary', False))
        sh = attach.shadow_of(ctx)
        want, ncont = expected(sh, inc)
        COL.count('judged_relations')
        if inc:
            COL.count('judged_relations_unary')
        try:
            got = entries_of(result)
            orders = [r.order for r in result]
        except Exception as e:
            COL.violation('relations', 'relations:entry-unreadable', None, repr(e))
            return
        for k, _, _ in want:
            COL.count('kind_' + k)
        if sorted(got) != sorted(want):
            COL.violation('relations', 'relations:entries-differ', want[:12], got[:12],
                          {'include_unary': inc})
        elif got != want:
            COL.violation('relations', 'relations:order-differs', want[:12], got[:12], {'include_unary': inc})
        if orders != [RANK[k] for k, _, _ in got if k in RANK] and sorted(got) == sorted(want):
            COL.violation('relations', 'relations:order-attribute-differs-from-rank',
                          [RANK[k] for k, _, _ in got], orders)
        if ncont >= 2:
            COL.nontrivial(sh.key())

    def raised(self, token, args, kwargs, exc):
        COL.count('judged_relations')
        COL.violation('relations', f'relations:raised-{type(exc).__name__}', 'a list', repr(exc))


def judge_text(rel, text, exclude_orth, where):
    if not isinstance(text, str):
        COL.violation(where, f'{where}:not-a-string', 'str', repr(text))
        return
    listed = [(r.kind, str(r.left), str(getattr(r, 'right', ''))) for r in rel
              if not (exclude_orth and r.kind == 'orthogonal')]
    lines = text.split('\n') if text else []
    if any('\n' in l or '\n' in r for _, l, r in listed):
        COL.count('out_of_scope_linebreak_in_label')
        return
    # the property: printing is defined for every context.  Beyond that only a weak sanity
    # check (the names of every listed entry are shown); the layout is not judged.
    for kind, left, right in listed:
        if left not in text or (right and right not in text):
            COL.violation(where, f'{where}:listed-entry-not-shown', [left, kind, right], text[:300])
            return
    if len(lines) == len(listed):
        COL.count('relations_text_one_line_per_entry')


class StrMonitor(Monitor):
    def after(self, token, args, kwargs, result):
        COL.count('judged_str')
        if not len(args[0]):
            COL.count('judged_print_of_empty_list')
        judge_text(args[0], result, True, 'relations-str')

    def raised(self, token, args, kwargs, exc):
        COL.count('judged_str')
        COL.violation('relations-str', f'relations-str:raised-{type(exc).__name__}', 'a string', repr(exc),
                      {'entries': len(args[0])})


class TostringMonitor(Monitor):
    def before(self, args, kwargs):
        # the real method rebinds ``self`` to a generator: remember the entries first
        return list(args[0]), bool(common.get_arg(args, kwargs, 1, 'exclude_orthogonal', False))

    def after(self, token, args, kwargs, result):
        COL.count('judged_tostring')
        judge_text(token[0], result, token[1], 'relations-tostring')

    def raised(self, token, args, kwargs, exc):
        COL.count('judged_tostring')
        COL.violation('relations-tostring', f'relations-tostring:raised-{type(exc).__name__}',
                      'a string', repr(exc), {'entries': len(token[0])})


def setup(concepts, spec):
    attach.attach_ctor(concepts)
    attach.attach(concepts.Context, 'relations', RelationsMonitor())
    attach.attach(concepts.junctors.Relations, '__str__', StrMonitor())
    attach.attach(concepts.junctors.Relations, 'tostring', TostringMonitor())
    global POOL
    POOL = common.Pool(5)
    if spec.get('shard', 0) % 2 == 1:
        # user code derives its own classes from the exported relation classes (never instantiated,
        # never handed to the library): the classification of contexts is unaffected
        made = 0
        for name in getattr(concepts.junctors, '__all__', []):
            base = getattr(concepts.junctors, name, None)
            if isinstance(base, type) and base.__module__ == concepts.junctors.__name__ and name != 'Relations':
                try:
                    USER_CLASSES.append(type('My' + name, (base,), {'__doc__': 'a user subclass', 'note': 'x'}))
                    made += 1
                except Exception:
                    COL.count('junctor_class_not_subclassable')
        COL.count('user_subclasses_of_relation_classes', made)


USER_CLASSES = []


def targeted():
    k = 0
    for n in (2, 3, 4, 5):
        full = (1 << n) - 1
        # only orthogonal pairs: columns = bit i of the row number
        rows = list(range(1 << min(n, 3)))
        yield gen.case('TGT:orthogonal', rows, min(n, 3), gen.SCHEMES[k % 5]); k += 1
        # all columns equal, one contingent column, no contingent column
        yield gen.case('TGT:equal-cols', [full if i % 2 else 0 for i in range(n + 1)], n, gen.SCHEMES[k % 5]); k += 1
        yield gen.case('TGT:one-contingent', [1 | (full & ~1 & ~2) if i else (full & ~1 & ~2) for i in range(n)], n, gen.SCHEMES[k % 5]); k += 1
        yield gen.case('TGT:none-contingent', [full & ~1] * n, n, gen.SCHEMES[k % 5]); k += 1
        yield gen.case('TGT:single-column', [i % 2 for i in range(n)], 1, gen.SCHEMES[k % 5]); k += 1
        # complementary pairs
        yield gen.case('TGT:complement', [0b01 if i % 2 else 0b10 for i in range(n)], 2, gen.SCHEMES[k % 5]); k += 1


def wideprops(tier, seed):
    """520-700 contingent properties over 8-16 objects, one of them with no property at all."""
    import random as _r
    rng = _r.Random(f'{seed}/wideprops')
    for k in range(2 if tier == 'quick' else 10):
        n, m = rng.randint(8, 16), rng.randint(520, 700)
        rows = [rng.getrandbits(m) for _ in range(n)]
        rows[rng.randrange(n)] = 0
        if k % 2:
            half = [i for i in range(n) if rows[i]]
            a, b = 1, 2           # two disjoint properties covering every object that has any property
            for i in half:
                rows[i] &= ~3
                rows[i] |= (1 if half.index(i) % 2 else 2)
        yield gen.case('WIDEPROPS', rows, m, 'plain')


def tiled(tier, seed):
    """Tens of millions of (pair, object) cells: 150-700 properties over 90-2 400 objects, the columns
    drawn with repetition from a small pool that contains nested chains, complements and disjoint
    columns - equal columns far apart with wider and narrower ones in between, in both orders."""
    import random as _r
    rng = _r.Random(f'{seed}/tiled')
    for k in range(2 if tier == 'quick' else 8):
        if k % 2 == 0:
            n, m = rng.randint(1900, 2400), rng.randint(150, 170)
        else:
            n, m = rng.randint(90, 200), rng.randint(560, 700)
        full = (1 << n) - 1
        pool = []
        for _ in range(rng.randint(3, 6)):
            c = rng.getrandbits(n) & rng.getrandbits(n)           # ~ a quarter of the objects
            chain = [c]
            for _ in range(rng.randint(1, 3)):
                c = c | (rng.getrandbits(n) & rng.getrandbits(n) & rng.getrandbits(n))
                chain.append(c)                                    # strictly wider (almost surely)
            pool += chain
            pool.append(full & ~chain[0])                          # a complement
            pool.append(full & ~chain[-1] & rng.getrandbits(n))    # disjoint from the chain's top
        cols = [rng.choice(pool) for _ in range(m)]
        rows = [sum(((cols[j] >> i) & 1) << j for j in range(m)) for i in range(n)]
        yield gen.case('TILED', rows, m, 'plain' if k % 2 else 'rev')


def witness(tier, seed):
    """Tall contexts in which the kind of a pair hinges on ONE object: the only object with both /
    only the left / only the right / neither property sits at position k, k swept over word, digit and
    power-of-two boundaries up to the last row (a scan that samples, chunks or stops early misses it)."""
    import random as _r
    rng = _r.Random(f'{seed}/witness')
    sizes = (700, 2100) if tier == 'quick' else (300, 700, 1500, 5000, 20000, 70000)
    marks = [0, 1, 29, 30, 59, 60, 63, 64, 65, 127, 128, 255, 256, 257, 511, 512, 513, 1023, 1024, 1025,
             2047, 2048, 4095, 4096, 8191, 8192, 16383, 16384, 32767, 32768, 65535, 65536]
    for n in sizes:
        ks = [k for k in marks if k < n] + [n - 2, n - 1]
        if tier == 'quick':
            ks = [k for k in ks if k >= 250 or k in (0, 64)]
        for k in ks:
            full = (1 << n) - 1
            bit = 1 << k
            a = rng.getrandbits(n) & ~bit                     # k has none of the random columns
            b = rng.getrandbits(n) & rng.getrandbits(n) & ~bit
            c = rng.getrandbits(n) & ~bit
            d = (c & rng.getrandbits(n)) & ~bit               # d strictly narrower than c (almost surely)
            cols = [a, a | bit,                      # equal but for k, which has the right one only
                    b | bit, full & ~b,              # complementary but for k, which has both
                    c, full & ~c & ~bit,             # complementary but for k, which has neither
                    d | bit, c,                      # d implies c but for k, which has the left one only
                    bit, full & ~bit,                # true only at k / false only at k
                    full & ~c & ~bit]                # an equal column far from its twin
            rows = [sum(((col >> i) & 1) << j for j, col in enumerate(cols)) for i in range(n)]
            yield gen.case(f'WITNESS:{n}@{k}', rows, len(cols), 'plain' if k % 2 else 'rev')


def cases(tier, seed, spec):
    yield from tiled(tier, seed)
    yield from witness(tier, seed)
    yield from wideprops(tier, seed)
    yield from targeted()
    # thousands of objects, a handful of properties (the wide shape would give millions of pairs)
    yield from (c for c in gen.huge(seed, 8 if tier == 'quick' else 48) if len(c['properties']) < 50)
    # relations() is quadratic in the number of properties: keep that axis <= 200
    yield from (c for c in gen.ctx_stream(tier, seed, with_wide=(tier == 'thorough')) if len(c['properties']) <= 200)


KEPT = []


def run_case(concepts, case, spec):
    rng = common.rng_for(case, spec)
    ctx = common.build_or_skip(concepts, case)
    if ctx is None:
        return
    sh = attach.shadow_of(ctx)
    want, ncont = expected(sh, False)
    COL.count(f'tables_with_{min(ncont, 2)}{"+" if ncont >= 2 else ""}_contingent'.replace('2+', '2plus'))
    if want and all(k == 'orthogonal' for k, _, _ in want):
        COL.count('tables_with_only_orthogonal_pairs')
    COL.sample({'table': case, 'expected_relations': want[:8]})
    if hash(gen.table_key(case)) % 3 == 0 and len(ctx.objects) * len(ctx.properties) <= 40000:
        # the FIRST relations() calls this context ever sees are cut short (an exception at a random point of the
        # call - its length is measured on a second context built from the same table - or hardly any stack left)
        from .. import faults
        probe = common.build_or_skip(concepts, case)
        total = faults.count_lines(lambda: probe.relations(True)) if probe is not None else None
        for _ in range(rng.randint(1, 3)):
            inc0 = rng.random() < .5
            try:
                if total and rng.random() < .8:
                    faults.interrupted(lambda: ctx.relations(include_unary=inc0), rng.randint(1, max(1, total)),
                                       rng.choice([RecursionError, MemoryError, KeyboardInterrupt]))
                else:
                    faults.low_stack(lambda: ctx.relations(include_unary=inc0), rng.randint(1, 14))
            except (core.CaseTimeout, core.CaseTooLarge):
                raise
            except BaseException as e:
                if not isinstance(e, Exception) and not isinstance(e, faults.Injected):
                    raise
        COL.count('first_relations_calls_of_a_context_cut_short')
    for inc in (False, True):
        rel = call(ctx.relations, inc) if inc else call(ctx.relations)
        if rel is RAISED:
            continue
        call(str, rel)
        call(rel.tostring)
        call(rel.tostring, True)
        call(rel.tostring, exclude_orthogonal=False)
        if len(rel) and hash(gen.table_key(case)) % 4 == 0:
            rel.reverse()               # the caller owns the returned list ...
            del rel[0]
            rel2 = call(ctx.relations, include_unary=inc)      # ... the next answer is unaffected
            if rel2 is not RAISED:
                call(str, rel2)
            COL.count('returned_list_edited_then_asked_again')
    if len(ctx.objects) <= 12 and len(ctx.properties) <= 12:
        common.interference(concepts, ctx, common.get_lattice(ctx), rng, 12)
        rel = call(ctx.relations, True)
        if rel is not RAISED:
            call(str, rel)
        call(ctx.relations)
        COL.count('asked_again_after_interference')
    # results (and single entries) of earlier contexts stay referenced while later contexts are asked
    kept = call(ctx.relations, True)
    if kept is not RAISED:
        KEPT.append(kept if rng.random() < .5 else list(kept)[:3])
        if len(KEPT) > 12:
            KEPT.pop(0)
        COL.count('earlier_results_kept_alive')
    old = POOL.older(rng)
    if old is not None:
        r = call(old.relations)
        if r is not RAISED:
            call(str, r)
        COL.count('session_requeries')
    POOL.add(ctx)
