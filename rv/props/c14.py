"""C14 - derived definitions are correct and unaliased; Context<->Definition are inverse."""

import fractions
import itertools
import random
import zlib

from .. import attach, core, gen
from ..attach import Monitor
from ..core import COL
from ..shadow import popcount
from ..tablemodel import TableModel
from . import common, c13
from .common import call, RAISED
from .c13 import MODELS, model_of, set_model, real_triple

DERIVED = ['copy', 'union', 'intersection', 'take', 'transposed', 'inverted']
ALIASES = {'union': '__or__', 'intersection': '__and__', 'inverted': '__invert__', 'transposed': '__neg__'}

META = {
    'rule': ('cases: (i) all (quick: a deterministic 1/6 sample of all; thorough: all) ordered pairs '
             'of the 113 definitions over {a,b}x{p,q} (overlapping/disjoint names, compatible/'
             'conflicting cells) x every derivation (copy, union/intersection with and without '
             'ignore_conflicts, | &, take with object/property lists in original and requested '
             'order, transposed, inverted, ~ -, double application) x single follow-up edits on '
             'either source or on the result; (ii) random larger definitions; (iii) contexts from '
             'the standard stream: Context.definition(), Context(*definition), ==/!= between '
             'contexts with equal and different triples, shape/fill_ratio/tostring/crc32 on both. '
             'Oracle: result triple from the ordered-table model; a conflicting call raises; '
             'involutions; aliasing as a global invariant - after every event on any tracked '
             'definition all live tracked definitions still equal their own models. '
             'distinct_nontrivial = distinct (pair, derivation, follow-up edit) whose follow-up '
             'changes its target.'),
    'evaluation_counters': ['judged_' + d for d in DERIVED] + ['judged_definition', 'judged_ctx_eq',
                                                              'judged_ctx_ne', 'judged_crc32',
                                                              'judged_agreement'],
    'required_counters': ['judged_' + d for d in DERIVED] + [
        'judged_definition', 'judged_ctx_eq', 'judged_ctx_ne', 'judged_crc32', 'judged_agreement',
        'aliasing_sweeps', 'live_definitions_compared', 'followup_edits_that_changed_target',
        'derivation_rejected_for_conflict', 'ctx_eq_true', 'ctx_eq_false', 'involutions_checked',
        'crc32_with_encoding', 'large_derivation_sessions', 'scripted_cross_definition_histories'],
    'shards': {'quick': 16, 'thorough': 16},
    'exhaustive': {'thorough': 'all 113 x 113 ordered pairs of definitions over {a,b}x{p,q} x all derivations'},
    'assumptions': ['comparison of a context with a non-context is out of scope',
                    'mutator steps themselves are judged by C13; here they only keep the models in step'],
}


def sweep(exclude=()):
    """Global invariant: every live tracked definition still equals its own model."""
    COL.count('aliasing_sweeps')
    for key, (ref, model) in list(MODELS.items()):
        d = ref()
        if d is None:
            MODELS.pop(key, None)
            continue
        if id(d) in exclude or id(d) in c13.INFLIGHT:
            continue
        COL.count('live_definitions_compared')
        got = real_triple(d)
        if got != model.triple():
            COL.violation('aliasing', 'aliasing:definition-changed-without-an-event-of-its-own',
                          model.triple(), got)
            set_model(d, TableModel(*got))


class LightMutator(c13.MutatorMonitor):
    """Keeps the receiver's model in step (C13 judges the step), then sweeps the others."""

    def _sync(self, token):
        if token is None:
            return
        d, model, pre, expected, before_key = token
        c13.INFLIGHT.discard(id(d))
        got = real_triple(d)
        if expected[0] != 'ok' and got == pre:
            set_model(d, TableModel(*pre))
        elif got != model.triple():
            if expected[0] == 'ok':
                # the step itself went wrong on a definition that was derived from / is the source of
                # another one: shared mutable state shows up exactly like this (C13 judges isolated
                # definitions and stays silent there)
                COL.violation(self.op, f'{self.op}:step-on-source-or-derivative-differs-from-model',
                              model.triple(), got, {'before': pre, 'args': [core.jsonable(a) for a in self._args]})
            set_model(d, TableModel(*got))
        if got != pre:
            COL.count('edits_that_changed_target')
        sweep(exclude={id(d)})

    def after(self, token, args, kwargs, result):
        self._args = args[1:]
        self._sync(token)

    def raised(self, token, args, kwargs, exc):
        self._args = args[1:]
        if token is not None and token[3][0] == 'ok':
            COL.violation(self.op, f'{self.op}:raised-on-source-or-derivative-although-the-model-accepts',
                          token[1].triple(), repr(exc), {'before': token[2], 'args': [core.jsonable(a) for a in args[1:]]})
        self._sync(token)


class DerivedMonitor(Monitor):
    def __init__(self, op, Definition):
        self.op, self.Definition = op, Definition

    def before(self, args, kwargs):
        d = args[0]
        if id(d) in c13.INFLIGHT:
            return None
        model = model_of(d)
        if real_triple(d) != model.triple():
            COL.violation('aliasing', 'aliasing:definition-changed-without-an-event-of-its-own',
                          model.triple(), real_triple(d))
            model = TableModel(*real_triple(d))
            set_model(d, model)
        margs = [model_of(a).copy() if isinstance(a, self.Definition) else a for a in args[1:]]
        mkw = {k: (model_of(a).copy() if isinstance(a, self.Definition) else a) for k, a in kwargs.items()}
        try:
            expected = model.derived(self.op, *margs, **mkw)
        except TypeError as e:
            expected = ('unspecified', repr(e))
        return d, expected

    def _desc(self, args, kwargs):
        return {'op': self.op, 'self': core.jsonable(real_triple(args[0])),
                'args': [core.jsonable(real_triple(a)) if isinstance(a, self.Definition) else core.jsonable(a)
                         for a in args[1:]], 'kwargs': core.jsonable(kwargs)}

    def after(self, token, args, kwargs, result):
        if token is None:
            return
        d, expected = token
        op = self.op
        if expected[0] == 'unspecified':
            COL.count('unspecified_not_judged')
            return
        COL.count('judged_' + op)
        COL.event(op, [core.jsonable(a)[:3] if isinstance(a, list) else core.jsonable(a) for a in args[1:]][:3])
        if expected[0] == 'reject':
            COL.violation(op, f'{op}:accepted-a-call-the-model-rejects', f'raise ({expected[1]})',
                          core.jsonable(real_triple(result)) if isinstance(result, self.Definition) else repr(result),
                          self._desc(args, kwargs))
            return
        want = expected[1]
        if not isinstance(result, self.Definition):
            COL.violation(op, f'{op}:result-is-not-a-definition', 'Definition', repr(result))
            return
        if result is d or any(result is a for a in args[1:]):
            COL.violation(op, f'{op}:result-is-one-of-its-sources', 'a new definition', 'same object')
        got = real_triple(result)
        if got != want.triple():
            COL.violation(op, f'{op}:result-differs-from-model', want.triple(), got, self._desc(args, kwargs))
            want = TableModel(*got)
        set_model(result, want)
        c13.check_invariants(result, op, self.Definition)
        sweep(exclude={id(result)})

    def raised(self, token, args, kwargs, exc):
        if token is None:
            return
        d, expected = token
        if expected[0] == 'unspecified':
            COL.count('unspecified_not_judged')
            return
        COL.count('judged_' + self.op)
        if expected[0] == 'ok':
            COL.violation(self.op, f'{self.op}:raised-{type(exc).__name__}-on-a-call-the-model-accepts',
                          expected[1].triple(), repr(exc), self._desc(args, kwargs))
        else:
            COL.count('derivation_rejected_for_conflict' if 'conflict' in expected[1] else 'derivation_rejected_unknown_name')
        sweep()


class DefinitionMonitor(Monitor):
    """Context.definition()"""
    def __init__(self, Definition):
        self.Definition = Definition

    def after(self, token, args, kwargs, result):
        ctx = args[0]
        sh = attach.shadow_of(ctx)
        COL.count('judged_definition')
        want = sh.triple()
        try:
            got = real_triple(result)
        except Exception as e:
            COL.violation('Context.definition', 'definition:result-unreadable', None, repr(e))
            return
        if got != (want[0], want[1], want[2]):
            COL.violation('Context.definition', 'definition:triple-differs-from-context', want, got)
        set_model(result, TableModel(*got))

    def raised(self, token, args, kwargs, exc):
        COL.count('judged_definition')
        COL.violation('Context.definition', f'definition:raised-{type(exc).__name__}', 'a definition', repr(exc))


class CtxCompare(Monitor):
    def __init__(self, negate, Context):
        self.negate, self.Context = negate, Context

    def after(self, token, args, kwargs, result):
        a, b = args[0], common.get_arg(args, kwargs, 1, 'other')
        if not isinstance(b, self.Context):
            COL.count('out_of_scope_non_context')
            return
        sa, sb = attach.shadow_of(a), attach.shadow_of(b)
        equal = sa.key() == sb.key()
        want = (not equal) if self.negate else equal
        name = 'ctx_ne' if self.negate else 'ctx_eq'
        COL.count('judged_' + name)
        COL.count(f'{name}_{"true" if want else "false"}')
        if result is NotImplemented or bool(result) != want:
            COL.violation(name, f'{name}:differs-from-triple-equality', want, repr(result),
                          {'a': core.jsonable(sa.triple()), 'b': core.jsonable(sb.triple())})


class Crc32Monitor(Monitor):
    def after(self, token, args, kwargs, result):
        obj = args[0]
        enc = kwargs.get('encoding', args[1] if len(args) > 1 else 'utf-8')
        COL.count('judged_crc32')
        try:
            text = obj.tostring()
        except Exception:
            COL.count('tostring_failed_not_judged_here')
            return
        want = zlib.crc32(text.encode(enc)) & 0xffffffff
        try:
            got = int(result, 16)
        except (TypeError, ValueError):
            COL.violation('crc32', 'crc32:not-a-hex-string', '%x' % want, repr(result))
            return
        if got != want:
            COL.violation('crc32', 'crc32:differs-from-zlib-over-table-text', '%x' % want, result)


def setup(concepts, spec):
    D, C = concepts.Definition, concepts.Context
    defs = concepts.definitions
    attach.attach_ctor(concepts)
    attach.attach(concepts.Definition, '__init__', c13.InitMonitor(D))
    for op in c13.MUTATORS:
        attach.attach(concepts.Definition, op, LightMutator(op, D))
    owners = {'copy': concepts.Definition, 'union': concepts.Definition, 'intersection': concepts.Definition,
              'take': concepts.Definition, 'transposed': concepts.Definition,
              'inverted': concepts.Definition}
    for op in DERIVED:
        hits = attach.attach(owners[op], op, DerivedMonitor(op, D))
        if op in ALIASES and not any(h.endswith(ALIASES[op]) for h in hits):
            COL.count(f'alias_{ALIASES[op]}_not_found')
    attach.attach(C, 'definition', DefinitionMonitor(D))
    attach.attach(concepts.Context, '__eq__', CtxCompare(False, C))
    attach.attach(concepts.Context, '__ne__', CtxCompare(True, C))
    attach.attach(concepts.Context, 'crc32', Crc32Monitor())
    attach.attach(concepts.Definition, 'crc32', Crc32Monitor())


# ---------------------------------------------------------------------------

def all_states():
    """The 113 definitions over {a,b} x {p,q} (as triples)."""
    out = []
    orders = [(), ('a',), ('b',), ('a', 'b'), ('b', 'a')]
    porders = [(), ('p',), ('q',), ('p', 'q'), ('q', 'p')]
    for o in orders:
        for p in porders:
            for cells in itertools.product([False, True], repeat=len(o) * len(p)):
                rows = [tuple(cells[i * len(p):(i + 1) * len(p)]) for i in range(len(o))]
                out.append((o, p, rows))
    return out


STATES = all_states()


def cases(tier, seed, spec):
    n = len(STATES)
    k = 0
    for i in range(n):
        for j in range(n):
            k += 1
            if tier == 'thorough' or (i * 31 + j * 17 + seed) % 6 == 0:
                yield {'kind': 'pair', 'i': i, 'j': j}
    for r in range(150 if tier == 'quick' else 3000):
        yield {'kind': 'random', 'n': r}
    for r in range(32 if tier == 'quick' else 400):
        yield {'kind': 'large', 'n': r}
    for r in range(120 if tier == 'quick' else 2000):
        yield {'kind': 'script', 'n': r}
    yield from (dict(c, kind='ctx') for c in gen.ctx_stream(tier, seed, with_wide=False, scale=.5 if tier == 'quick' else .2))
    # one definition edited, cell by cell, from a table into a twin of it that cheap fingerprints cannot tell
    # apart (row ints congruent modulo 2**61 - 1; table text of equal length and CRC-32), rendered before and after
    for t in (False, True):
        for c in itertools.chain(gen.hash_twins(seed, 10 if tier == 'quick' else 80, tag='C14HASHTWIN'),
                                 gen.crc_twins(seed, 8 if tier == 'quick' else 60, tag='C14CRCTWIN')):
            yield dict(c, kind='twin-edit', transposed=t)
    # table texts of more than a million characters (buffers, chunked encoders): 3 000 x 100 and 120 x 2 600
    import random as _r
    rng = _r.Random(f'{seed}/c14bigtext')
    for n, m in ([(3000, 100)] if tier == 'quick' else [(3000, 100), (120, 2600), (5000, 70)]):
        yield dict(gen.case('BIGTEXT', [rng.getrandbits(m) for _ in range(n)], m, 'plain'), kind='ctx')


def derivations(D, x, y, rng):
    """(description, thunk) for every derivation on the pair."""
    ox, px = list(x.objects), list(x.properties)
    take_args = [((), {}), ((ox[::-1],), {}), ((ox[::-1],), {'reorder': True}),
                 ((None, px[::-1]), {'reorder': True}), ((ox[:1], px[:1]), {}),
                 ((ox + ox[:1], None, True), {}), ((['nope'],), {}), (([],), {}),
                 # name lists with repeats, shorter than / as long as / longer than the axis
                 ((ox[:1] * 2,), {}), ((ox[-1:] * (len(ox) + 1),), {}), ((None, px[:1] * max(len(px), 2)), {}),
                 ((ox[-1:] + ox[:1] + ox[-1:], px[-1:] * 3), {}), ((ox + ox, px + px[::-1]), {}),
                 ((ox[-1:] * len(ox), px[-1:] * (len(px) + 2)), {'reorder': True})]
    out = [('copy', lambda: x.copy()),
           ('union', lambda: x.union(y)), ('union-ignore', lambda: x.union(y, ignore_conflicts=True)),
           ('|', lambda: x | y),
           ('intersection', lambda: x.intersection(y)), ('intersection-ignore', lambda: x.intersection(y, True)),
           ('&', lambda: x & y),
           ('transposed', lambda: x.transposed()), ('-', lambda: -x),
           ('inverted', lambda: x.inverted()), ('~', lambda: ~x),
           ('union-self', lambda: x | x)]
    for a, kw in take_args:
        out.append((f'take{a}{kw}', lambda a=a, kw=kw: x.take(*a, **kw)))
    return out


def edits(d, rng):
    o, p = list(d.objects), list(d.properties)
    out = [lambda: d.__setitem__(('a', 'p'), True), lambda: d.__setitem__(('b', 'q'), False),
           lambda: d.add_object('n', ['p', 'r']), lambda: d.add_property('r', ['a']),
           lambda: d.set_object('a', ['q']), lambda: d.set_property('p', []),
           lambda: d.remove_empty_objects(), lambda: d.remove_empty_properties()]
    if o:
        out += [lambda: d.remove_object(o[0]), lambda: d.rename_object(o[-1], 'z'), lambda: d.move_object(o[-1], 0)]
        if p:
            out += [lambda: d.__setitem__((o[0], p[0]), not d[o[0], p[0]])]
    if p:
        out += [lambda: d.remove_property(p[-1]), lambda: d.rename_property(p[0], 'y'), lambda: d.move_property(p[-1], 0)]
    return out


def run_pair(concepts, case, spec):
    D = concepts.Definition
    rng = random.Random(f"{spec['seed']}/c14/{case['i']}/{case['j']}")
    sx, sy = STATES[case['i']], STATES[case['j']]
    probe = D(*sx)
    n_der = len(derivations(D, probe, probe, rng))
    which = range(n_der)
    for k in which:
        x, y = D(*sx), D(*sy)
        bystanders = []
        if (k + case['i'] + case['j']) % 2 == 0:
            # copies taken earlier, never edited, alive during everything that follows (the sweeps see them)
            bystanders = [call(x.copy), call(y.copy)]
            COL.count('unedited_earlier_copies_alive_during_the_derivation')
        name, thunk = derivations(D, x, y, rng)[k]
        res = call(thunk)
        if res is RAISED or not isinstance(res, D):
            # the derivation was refused (conflicting cells, unknown names): the sources are edited
            # afterwards - neither their earlier copies nor the other source may follow
            for n_, target in enumerate((x, y)):
                es = edits(target, rng)
                call(es[(k * 5 + case['i'] + 3 * case['j'] + n_) % len(es)])
                call(es[0])
            with core.monitor_code():
                sweep()
            COL.count('sources_edited_after_a_refused_derivation')
            continue
        # involutions
        if name in ('transposed', '-', 'inverted', '~'):
            back = call(res.transposed if name in ('transposed', '-') else res.inverted)
            if back is not RAISED:
                COL.count('involutions_checked')
                if real_triple(back) != real_triple(x):
                    COL.violation('driver', f'{name}:not-an-involution', real_triple(x), real_triple(back))
        # single follow-up edit on a source or on the result
        targets = [('self', x), ('other', y), ('result', res)]
        tname, target = targets[(k + case['i'] + case['j']) % 3] if spec['tier'] == 'quick' else rng.choice(targets)
        es = edits(target, rng)
        e = es[(k * 5 + case['i'] + 3 * case['j']) % len(es)]
        before = real_triple(target)
        call(e)
        if real_triple(target) != before:
            COL.count('followup_edits_that_changed_target')
            COL.nontrivial(case['i'], case['j'], name, tname, (k * 5 + case['i'] + 3 * case['j']) % len(es))
        # a second sweep after dropping nothing: all three are still alive here
        with core.monitor_code():
            sweep()
    if (case['i'] + case['j']) % 97 == 0:
        COL.sample({'pair': [core.jsonable(sx), core.jsonable(sy)], 'derivations': n_der})


def run_random(concepts, case, spec):
    D = concepts.Definition
    rng = random.Random(f"{spec['seed']}/c14r/{case['n']}")
    x = c13.random_definition(D, rng, c13.NAMES_O, c13.NAMES_P)
    y = c13.random_definition(D, rng, c13.NAMES_O, c13.NAMES_P)
    live = [x, y]
    for step in range(25):
        a, b = rng.choice(live), rng.choice(live)
        ders = [lambda: a.copy(), lambda: a.union(b, ignore_conflicts=True), lambda: a.intersection(b, True),
                lambda: a | b, lambda: a & b, lambda: -a, lambda: ~a,
                lambda: a.take(rng.sample(list(a.objects), rng.randint(0, len(a.objects))),
                               rng.sample(list(a.properties), rng.randint(0, len(a.properties))),
                               reorder=rng.random() < .5),
                lambda: a.take(rng.choices(list(a.objects), k=rng.randint(1, len(a.objects) + 2)) if a.objects else None,
                               rng.choices(list(a.properties), k=rng.randint(1, len(a.properties) + 2)) if a.properties else None,
                               reorder=rng.random() < .3)]
        res = call(rng.choice(ders))
        if res is not RAISED and isinstance(res, D):
            live.append(res)
            if len(live) > 6:
                live.pop(rng.randrange(len(live)))
        t = rng.choice(live)
        es = edits(t, rng)
        call(rng.choice(es))
    COL.count('random_sessions')


def run_large(concepts, case, spec):
    """Derivations that drop or merge many names at once (axes of 70-400 names), each followed by
    edits and a further derivation that consults the names dropped before."""
    D = concepts.Definition
    rng = random.Random(f"{spec['seed']}/c14large/{case['n']}")
    no, np_ = rng.choice([(80, 5), (150, 8), (300, 4), (6, 200), (400, 3), (1200, 3), (3, 2200)])
    objs = [f'o{i:03d}' for i in range(no)]
    props = [f'p{j:03d}' for j in range(np_)]
    x = D(objs, props, [tuple(rng.random() < .4 for _ in props) for _ in objs])
    keep_o = rng.sample(objs, max(2, no // rng.choice([3, 10, 40])))
    keep_p = rng.sample(props, max(1, np_ // rng.choice([1, 2])))
    sub = call(x.take, keep_o, keep_p, reorder=rng.random() < .5)
    y = D(keep_o[:len(keep_o) // 2] + ['yo1'], keep_p + ['yp1'],
          [tuple(bool(x[o, p]) if o in objs and p in props else True for p in keep_p + ['yp1'])
           for o in keep_o[:len(keep_o) // 2] + ['yo1']])
    inter = call(x.intersection, y, ignore_conflicts=True)
    inter2 = call(lambda: x & y)
    for z in (sub, inter, inter2):
        if z is RAISED or not isinstance(z, D):
            continue
        dropped = [o for o in objs if o not in z.objects][:3]
        for o in dropped:                        # names dropped by the bulk step are consulted again
            call(z.add_object, o, list(z.properties)[:1])
            call(lambda: z[o, list(z.properties)[0]] if z.properties else None)
        call(z.union, x)
        call(z.union, x, ignore_conflicts=True)
        call(lambda: x | z)
        call(z.transposed)
        if dropped:
            call(z.rename_object, z.objects[0], dropped[-1] + '_again')
    COL.count('large_derivation_sessions')


def run_script(concepts, case, spec):
    """Multi-step histories across a source and its derivative: the source is edited (renamed, moved)
    *before* deriving, then both sides rename / move / remove the same labels in turn."""
    D = concepts.Definition
    rng = random.Random(f"{spec['seed']}/c14script/{case['n']}")
    from .c13 import fresh
    o = ['a', 'b', 'c', 'd'][:rng.randint(2, 4)]
    p = ['p', 'q', 'r'][:rng.randint(1, 3)]
    x = D(o, p, [tuple(rng.random() < .5 for _ in p) for _ in o])
    y0 = D(o[:2] + ['e'], p[:1] + ['s'], [tuple(rng.random() < .5 for _ in range(2)) for _ in range(3)])
    # 1. edits on the source before deriving (these may create lazily built internal indexes)
    for _ in range(rng.randint(1, 3)):
        k = rng.randrange(4)
        if k == 0:
            call(x.rename_object, fresh(rng.choice(x.objects)), f'n{rng.randrange(99)}')
        elif k == 1:
            call(x.move_object, rng.choice(x.objects), rng.randrange(len(x.objects)))
        elif k == 2:
            call(x.rename_property, rng.choice(x.properties), f'm{rng.randrange(99)}')
        else:
            call(x.move_property, rng.choice(x.properties), rng.randrange(len(x.properties)))
    # 2. derive
    ders = [lambda: x.copy(), lambda: x.union(y0, ignore_conflicts=True), lambda: x.intersection(y0, True),
            lambda: x.take(list(x.objects)[::-1], reorder=rng.random() < .5), lambda: x.take(), lambda: x.transposed(),
            lambda: x.inverted(), lambda: x | x, lambda: -(-x)]
    y = call(rng.choice(ders))
    if y is RAISED or not isinstance(y, D):
        return
    # 3. both sides edit the same labels in turn
    for step in range(rng.randint(2, 5)):
        for side in ((x, y) if step % 2 == 0 else (y, x)):
            names_o, names_p = list(side.objects), list(side.properties)
            k = rng.randrange(6)
            if k == 0 and names_o:
                call(side.rename_object, names_o[0], f'z{step}{rng.randrange(9)}')
            elif k == 1 and names_o:
                call(side.move_object, names_o[-1], 0)
            elif k == 2 and names_p:
                call(side.rename_property, names_p[-1], f'y{step}{rng.randrange(9)}')
            elif k == 3 and names_p:
                call(side.move_property, names_p[0], len(names_p) - 1)
            elif k == 4 and names_o:
                call(side.remove_object, names_o[rng.randrange(len(names_o))])
            else:
                call(side.__setitem__, (rng.choice(['a', 'b', 'new']), rng.choice(['p', 'new-p'])), rng.random() < .5)
    with core.monitor_code():
        sweep()
    COL.count('scripted_cross_definition_histories')


_SIBLINGS = []


def sibling_subclasses(C):
    if not _SIBLINGS or C not in _SIBLINGS[0].__mro__:
        _SIBLINGS[:] = [type('UserContextA', (C,), {'__doc__': 'a user subclass'}),
                        type('UserContextB', (C,), {'__doc__': 'another, unrelated user subclass'})]
    return _SIBLINGS


def run_ctx(concepts, case, spec):
    C, D = concepts.Context, concepts.Definition
    rng = common.rng_for(case, spec)
    ctx = common.build_or_skip(concepts, case)
    if ctx is None:
        return
    sh = attach.shadow_of(ctx)
    d = call(ctx.definition)
    if d is RAISED:
        return
    # Context(*definition).definition() == definition, and back
    c2 = call(C, *d)
    if c2 is not RAISED:
        eq = call(lambda: c2 == ctx)
        ne = call(lambda: c2 != ctx)
        d2 = call(c2.definition)
        if d2 is not RAISED and not (d2 == d):
            COL.violation('driver', 'roundtrip:Context(*definition).definition()-differs', real_triple(d), real_triple(d2))
    # instances of two unrelated user subclasses of Context are contexts: equal triples, equal contexts
    if len(case['objects']) * len(case['properties']) <= 100:
        S1, S2 = sibling_subclasses(C)
        tr = (list(case['objects']), list(case['properties']), gen.bools_of(case))
        flipped = [tuple(not v if (i, j) == (0, 0) else v for j, v in enumerate(r)) for i, r in enumerate(tr[2])]
        a, b, b2 = call(S1, *tr), call(S2, *tr), call(S2, tr[0], tr[1], flipped)
        if RAISED not in (a, b, b2):
            COL.count('sibling_subclass_comparisons')
            for desc, thunk, want in (('a == b', lambda: a == b, True), ('b == a', lambda: b == a, True),
                                      ('a != b', lambda: a != b, False), ('a == b2', lambda: a == b2, False),
                                      ('b2 != a', lambda: b2 != a, True), ('ctx == a', lambda: ctx == a, True),
                                      ('a != ctx', lambda: a != ctx, False)):
                got = call(thunk)
                if got is not RAISED and bool(got) != want:
                    COL.violation('driver', 'eq:instances-of-user-subclasses-with-' + ('equal' if want == (desc[2] == '=') else 'different')
                                  + '-triples-compare-wrongly', {desc: want}, {desc: got})
    # a context that differs in one cell / one label / row order
    rows = list(case['rows'])
    rows[rng.randrange(len(rows))] ^= 1 << rng.randrange(len(case['properties']))
    other = common.build_or_skip(concepts, dict(case, rows=rows))
    if other is not None:
        call(lambda: other == ctx)
        call(lambda: other != ctx)
        call(lambda: ctx == other)
    relabelled = common.build_or_skip(concepts, dict(case, objects=[o + '_' for o in case['objects']]))
    if relabelled is not None:
        call(lambda: relabelled == ctx)
        call(lambda: relabelled != ctx)
    call(lambda: ctx == ctx)
    c3 = call(ctx.copy)
    if c3 is not RAISED:
        call(lambda: c3 == ctx)
        call(lambda: c3 != ctx)
        if c3 is ctx:
            COL.violation('driver', 'copy:context-copy-is-the-same-object', 'a new context', 'same object')
    call(lambda: ctx == d)          # non-context: out of scope
    # agreement of shape / fill_ratio / tostring / crc32 between context and definition
    COL.count('judged_agreement')
    try:
        obs = {'shape': (tuple(ctx.shape), tuple(d.shape)), 'fill_ratio': (ctx.fill_ratio, d.fill_ratio),
               'tostring': (ctx.tostring(), d.tostring()), 'crc32': (ctx.crc32(), d.crc32())}
    except Exception as e:
        COL.violation('driver', 'agreement:raised', 'values', repr(e))
        return
    for k, (a, b) in obs.items():
        if a != b:
            COL.violation('driver', f'agreement:{k}-differs-between-context-and-definition', repr(a), repr(b))
    try:
        sz = (ctx.shape.size, ctx.shape.rows, ctx.shape.columns, d.shape.size, d.shape.rows, d.shape.columns)
    except Exception as e:
        sz = repr(e)
    if sz != (sh.n * sh.m, sh.n, sh.m, sh.n * sh.m, sh.n, sh.m):
        COL.violation('driver', 'agreement:shape-size-rows-columns-differ', (sh.n * sh.m, sh.n, sh.m), sz)
    if obs['shape'][0] != (sh.n, sh.m):
        COL.violation('driver', 'agreement:shape-differs-from-table', (sh.n, sh.m), obs['shape'][0])
    want_fill = fractions.Fraction(sum(popcount(r) for r in sh.rows), sh.n * sh.m)
    if obs['fill_ratio'][0] != want_fill:
        COL.violation('driver', 'agreement:fill_ratio-differs-from-table', str(want_fill), str(obs['fill_ratio'][0]))
    # returned containers belong to the caller
    b = call(lambda: ctx.bools)
    if b is not RAISED and isinstance(b, list):
        b.reverse()
        b.append(())
        d3 = call(ctx.definition)
        call(lambda: ctx == common.build_or_skip(concepts, case))
        COL.count('returned_bools_edited_then_asked_again')
    # crc32 with other encodings, after the default one was computed on the same objects
    for enc in ('latin-1', 'utf-16', 'utf-8', 'utf-32', 'utf-8-sig', 'utf-16-le'):
        try:
            ''.join(case['objects'] + case['properties']).encode(enc)
        except UnicodeEncodeError:
            continue
        a = call(ctx.crc32, enc)
        b = call(d.crc32, encoding=enc)
        c = call(ctx.crc32, encoding=enc)
        COL.count('crc32_with_encoding')
        if RAISED not in (a, b, c) and not (a == b == c):
            COL.violation('driver', 'agreement:crc32-with-encoding-differs-between-context-and-definition',
                          [enc, b], [a, c])
    # editing the definition must not change the context (and vice versa nothing to edit)
    call(d.__setitem__, (case['objects'][0], case['properties'][0]), not d[case['objects'][0], case['properties'][0]])
    if tuple(ctx.objects) != sh.objects or [tuple(r) for r in ctx.bools] != sh.triple()[2]:
        COL.violation('driver', 'aliasing:context-changed-by-editing-its-definition', sh.triple(), ctx.bools)
    if hash(gen.table_key(case)) % 50 == 0:
        COL.sample({'context_case': case})


def run_twin_edit(concepts, case, spec):
    D, C = concepts.Definition, concepts.Context
    o, p = list(case['objects']), list(case['properties'])
    m = len(p)
    A, B = ([[bool(r >> j & 1) for j in range(m)] for r in rs] for rs in (case['rows'], case['twin_rows']))
    if case.get('transposed'):
        o, p = p, o
        A, B = ([list(col) for col in zip(*t)] for t in (A, B))
    d = call(D, o, p, A)
    if d is RAISED:
        return
    call(d.tostring), call(str, d), call(d.crc32), call(lambda: (d.shape, d.fill_ratio))
    back = rng_cells = [(i, j) for i in range(len(o)) for j in range(len(p)) if A[i][j] != B[i][j]]
    for i, j in rng_cells:
        call(d.__setitem__, (o[i], p[j]), B[i][j])
    COL.count('definitions_edited_into_a_twin_of_what_was_rendered_before')
    fresh = call(D, o, p, B)
    ctx = call(C, *d)
    if fresh is RAISED or ctx is RAISED:
        return
    for what, f in (('table-string', lambda x: x.tostring()), ('str', str), ('crc32', lambda x: x.crc32()),
                    ('fill_ratio', lambda x: x.fill_ratio), ('bools', lambda x: [tuple(r) for r in x.bools])):
        got, want, viactx = call(f, d), call(f, fresh), call(f, ctx)
        COL.count('twin_edit_agreements_checked')
        if what == 'str':
            viactx = got        # str(context) is a different rendering (header + indented table)
        if got is RAISED or got != want or got != viactx:
            COL.violation('driver', f'agreement:{what}-of-an-edited-definition-differs-from-a-fresh-one-and-from-its-context',
                          None if want is RAISED else str(want)[:300], None if got is RAISED else str(got)[:300],
                          {'cells_edited': len(back)})
            break
    COL.nontrivial('twin-edit', case['fam'], bool(case.get('transposed')), tuple(case['rows']))


def run_case(concepts, case, spec):
    c13.INFLIGHT.clear()
    if case['kind'] == 'twin-edit':
        return run_twin_edit(concepts, case, spec)
    if case['kind'] == 'pair':
        run_pair(concepts, case, spec)
    elif case['kind'] == 'random':
        run_random(concepts, case, spec)
    elif case['kind'] == 'large':
        run_large(concepts, case, spec)
    elif case['kind'] == 'script':
        run_script(concepts, case, spec)
    else:
        run_ctx(concepts, case, spec)
