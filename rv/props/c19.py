"""C19 - ill-formed input raises ValueError; accepted input is represented faithfully."""

import copy
import itertools
import random

from .. import attach, gen, core
from ..attach import Monitor
from ..core import COL
from . import common
from .common import call, RAISED

META = {
    'rule': ('cases: every valid triple from EXH(3x3) plus random/structured ones, and every single '
             'and (quick: sampled, thorough: every) ordered double corruption of a valid triple / '
             'serialized dict by the operators {drop/duplicate/append-duplicate a name, move a name '
             'across axes, empty an axis, drop/add/duplicate a row, drop/add a cell, empty the rows, '
             'truthy-non-bool cells; dict: delete a key, non-str name, drop/add a context row, '
             'shift an index to -1 / to |M|, repeat an index, empty the stored lattice, '
             'require_lattice without lattice}. Events: every Context.__init__ and Context.fromdict '
             'call. Oracle on well-typed input: the call succeeds iff the validity predicate of '
             'the property holds, any other outcome must be a ValueError; on success objects/'
             'properties/bools reproduce the input (cells by truthiness). distinct_nontrivial = '
             'distinct invalid inputs by (operators applied, shape, which rule is broken).'),
    'evaluation_counters': ['judged_init', 'judged_fromdict'],
    'required_counters': ['judged_init', 'judged_fromdict', 'init_valid', 'init_invalid',
                          'fromdict_valid', 'fromdict_invalid', 'fromdict_with_lattice',
                          'invalid_reason_empty', 'invalid_reason_duplicate', 'invalid_reason_overlap',
                          'invalid_reason_row_count', 'invalid_reason_row_length',
                          'invalid_reason_missing_key', 'invalid_reason_non_string',
                          'invalid_reason_index_range', 'invalid_reason_index_repeated',
                          'invalid_reason_empty_lattice', 'invalid_reason_lattice_required'],
    'shards': {'quick': 16, 'thorough': 16},
    'exhaustive': {'quick': 'all 682 valid tables <= 3x3 x all single corruptions',
                   'thorough': 'all 682 valid tables <= 3x3 x all single and all ordered double corruptions'},
    'assumptions': ['ill-typed input (names that are not str for Context(), unsized rows, non-int '
                    'indexes, inconsistent stored lattices) is out of scope'],
}


# ---------------------------------------------------------------------------
# validity predicates (the property, verbatim)

def _seq(x):
    return isinstance(x, (list, tuple))


def triple_verdict(objects, properties, bools):
    """('ok'|'invalid'|'ill-typed', reason)"""
    if not (_seq(objects) and _seq(properties) and _seq(bools)):
        return 'ill-typed', None
    if not all(isinstance(o, str) for o in objects) or not all(isinstance(p, str) for p in properties):
        return 'ill-typed', None
    if not all(_seq(r) for r in bools):
        return 'ill-typed', None
    if not objects or not properties:
        return 'invalid', 'empty'
    if len(set(objects)) != len(objects) or len(set(properties)) != len(properties):
        return 'invalid', 'duplicate'
    if set(objects) & set(properties):
        return 'invalid', 'overlap'
    if len(bools) != len(objects):
        return 'invalid', 'row_count'
    if any(len(r) != len(properties) for r in bools):
        return 'invalid', 'row_length'
    return 'ok', None


def dict_verdict(d, ignore_lattice, require_lattice):
    if not isinstance(d, dict):
        return 'ill-typed', None
    for k in ('objects', 'properties', 'context'):
        if k not in d:
            return 'invalid', 'missing_key'
    objects, properties, context = d['objects'], d['properties'], d['context']
    if not (_seq(objects) and _seq(properties) and _seq(context)):
        return 'ill-typed', None
    if not all(isinstance(v, str) for v in objects) or not all(isinstance(v, str) for v in properties):
        return 'invalid', 'non_string'
    # a row of column indexes is a sized collection of ints: list, tuple - or a set (no repeats possible)
    if not all(isinstance(r, (list, tuple, set, frozenset))
               and all(isinstance(i, int) and not isinstance(i, bool) for i in r) for r in context):
        return 'ill-typed', None
    lattice = d.get('lattice')
    if lattice is not None and not _seq(lattice):
        return 'ill-typed', None
    reasons = []
    if len(context) != len(objects):
        reasons.append('row_count')
    if require_lattice and 'lattice' not in d:
        reasons.append('lattice_required')
    if lattice is not None and len(lattice) == 0:
        reasons.append('empty_lattice')     # "rejects ... an empty stored lattice": no exemption for ignore_lattice
    m = len(properties)
    for r in context:
        if any(i < 0 or i >= m for i in r):
            reasons.append('index_range')
            break
    for r in context:
        if len(set(r)) != len(r):
            reasons.append('index_repeated')
            break
    if not objects or not properties:
        reasons.append('empty')
    if len(set(objects)) != len(objects) or len(set(properties)) != len(properties):
        reasons.append('duplicate')
    if set(objects) & set(properties):
        reasons.append('overlap')
    if reasons:
        return 'invalid', reasons[0]
    return 'ok', None


# ---------------------------------------------------------------------------
# monitors

def _represented(ctx, objects, properties, bools):
    try:
        ok = (tuple(ctx.objects) == tuple(objects) and tuple(ctx.properties) == tuple(properties)
              and [tuple(bool(x) for x in r) for r in ctx.bools] == [tuple(bool(x) for x in r) for r in bools])
    except Exception as e:
        return False, repr(e)
    return ok, None


class InitMonitor(Monitor):
    def before(self, args, kwargs):
        try:
            _, objects, properties, bools = attach._ctor_args(args, kwargs)
        except Exception:
            return None
        # snapshot (the call must not be able to change what we compare against)
        if _seq(objects) and _seq(properties) and _seq(bools) and all(_seq(r) for r in bools):
            return (list(objects), list(properties), [list(r) for r in bools])
        return 'ill'

    def _judge(self, token, args, outcome, exc=None):
        if token is None or token == 'ill':
            COL.count('out_of_scope_ill_typed')
            return
        objects, properties, bools = token
        verdict, reason = triple_verdict(objects, properties, bools)
        if verdict == 'ill-typed':
            COL.count('out_of_scope_ill_typed')
            return
        COL.count('judged_init')
        COL.event('Context()', objects[:4], properties[:4], len(bools))
        if verdict == 'ok':
            COL.count('init_valid')
            if outcome == 'raised':
                COL.violation('Context.__init__', f'init:valid-input-raised-{type(exc).__name__}',
                              'a context', repr(exc), {'input': [objects, properties, bools]})
                return
            ok, err = _represented(args[0], objects, properties, bools)
            if not ok:
                COL.violation('Context.__init__', 'init:accepted-input-not-reproduced',
                              [objects, properties, bools],
                              err or [list(args[0].objects), list(args[0].properties), args[0].bools])
        else:
            COL.count('init_invalid')
            COL.count('invalid_reason_' + reason)
            COL.nontrivial('init', reason, len(objects), len(properties), len(bools),
                           tuple(len(r) for r in bools), tuple(objects), tuple(properties))
            if outcome == 'returned':
                COL.violation('Context.__init__', f'init:invalid-input-accepted-{reason}',
                              'ValueError', 'a context', {'input': [objects, properties, bools]})
            elif not isinstance(exc, ValueError):
                COL.violation('Context.__init__', f'init:invalid-input-raised-{type(exc).__name__}-not-ValueError',
                              'ValueError', repr(exc), {'input': [objects, properties, bools], 'reason': reason})

    def after(self, token, args, kwargs, result):
        self._judge(token, args, 'returned')

    def raised(self, token, args, kwargs, exc):
        self._judge(token, args, 'raised', exc)


class FromdictMonitor(Monitor):
    def before(self, args, kwargs):
        d = common.get_arg(args, kwargs, 1, 'd')
        ign = bool(common.get_arg(args, kwargs, 2, 'ignore_lattice', False))
        req = bool(common.get_arg(args, kwargs, 3, 'require_lattice', False))
        try:
            snap = copy.deepcopy(d)
        except Exception:
            return None
        return snap, ign, req

    def _judge(self, token, outcome, result=None, exc=None):
        if token is None:
            COL.count('out_of_scope_ill_typed')
            return
        d, ign, req = token
        verdict, reason = dict_verdict(d, ign, req)
        if verdict in ('ill-typed', 'unspecified'):
            COL.count('out_of_scope_' + verdict.replace('-', '_'))
            return
        COL.count('judged_fromdict')
        if isinstance(d, dict) and d.get('lattice'):
            COL.count('fromdict_with_lattice')
        if verdict == 'ok':
            COL.count('fromdict_valid')
            if outcome == 'raised':
                if d.get('lattice') and not ign:
                    COL.count('out_of_scope_stored_lattice_problem')   # consistency of stored lattices is C11's
                    return
                COL.violation('Context.fromdict', f'fromdict:valid-input-raised-{type(exc).__name__}',
                              'a context', repr(exc), {'input': d})
                return
            m = len(d['properties'])
            bools = [[j in set(r) for j in range(m)] for r in d['context']]
            ok, err = _represented(result, d['objects'], d['properties'], bools)
            if not ok:
                COL.violation('Context.fromdict', 'fromdict:accepted-input-not-reproduced', d,
                              err or [list(result.objects), list(result.properties), result.bools])
        else:
            COL.count('fromdict_invalid')
            COL.count('invalid_reason_' + reason)
            COL.nontrivial('fromdict', reason, core.dumps(d), ign, req)
            if outcome == 'returned':
                COL.violation('Context.fromdict', f'fromdict:invalid-input-accepted-{reason}',
                              'ValueError', 'a context', {'input': d, 'require_lattice': req})
            elif not isinstance(exc, ValueError):
                COL.violation('Context.fromdict', f'fromdict:invalid-input-raised-{type(exc).__name__}-not-ValueError',
                              'ValueError', repr(exc), {'input': d, 'reason': reason})

    def after(self, token, args, kwargs, result):
        self._judge(token, 'returned', result=result)

    def raised(self, token, args, kwargs, exc):
        self._judge(token, 'raised', exc=exc)


def setup(concepts, spec):
    attach.attach(concepts.Context, '__init__', InitMonitor())
    attach.attach(concepts.Context, 'fromdict', FromdictMonitor())


# ---------------------------------------------------------------------------
# corruption operators on (objects, properties, rows) with rows as lists of cells

class Label(str):
    """A str subclass: still a string for every purpose of the property."""


class Shown(str):
    """A str subclass with a display form of its own (what ``class X(str, enum.Enum)`` members are):
    equal to, hashing like and ``isinstance`` of str, but ``str()``, ``repr()`` and ``format()`` of it
    give another text.  The name is the string value, not what it prints as."""

    def __str__(self):
        return '<' + str.__str__(self) + '>'

    def __repr__(self):
        return 'Shown.' + str.__str__(self).upper()

    def __format__(self, spec):
        return format('<' + str.__str__(self) + '>', spec)


def _sub(x, r, k=0):
    if not isinstance(x, str):
        return x
    return (Label, Shown)[(r.random() < .5) ^ (k % 2)](x)


def _ops_triple():
    def drop_obj(t, r): o, p, b = t; i = r.randrange(len(o)) if o else 0; return (o[:i] + o[i + 1:], p, b)
    def drop_prop(t, r): o, p, b = t; j = r.randrange(len(p)) if p else 0; return (o, p[:j] + p[j + 1:], b)
    def dup_obj(t, r):
        o, p, b = t
        if len(o) < 2: return (o + o[:1], p, b)
        o = list(o); o[-1] = o[0]; return (o, p, b)
    def dup_prop(t, r):
        o, p, b = t
        if len(p) < 2: return (o, p + p[:1], b)
        p = list(p); p[0] = p[-1]; return (o, p, b)
    def app_dup_obj(t, r): o, p, b = t; return (o + o[:1], p, b + b[:1])
    def app_dup_prop(t, r): o, p, b = t; return (o, p + p[-1:], [row + row[-1:] for row in b])
    def overlap(t, r):
        o, p, b = t
        if not o or not p: return t
        p = list(p); p[r.randrange(len(p))] = o[r.randrange(len(o))]; return (o, p, b)
    def overlap2(t, r):
        o, p, b = t
        if not o or not p: return t
        o = list(o); o[0] = p[-1]; return (o, p, b)
    def overlap_blank(t, r):
        o, p, b = t
        if not o or not p: return t
        o, p = list(o), list(p); o[r.randrange(len(o))] = ''; p[r.randrange(len(p))] = ''; return (o, p, b)
    def blank_obj(t, r):
        o, p, b = t
        if not o: return t
        o = list(o); o[0] = ''; return (o, p, b)
    def empty_obj(t, r): o, p, b = t; return ([], p, b)
    def empty_obj_rows(t, r): o, p, b = t; return ([], p, [])
    def empty_prop(t, r): o, p, b = t; return (o, [], b)
    def empty_prop_cells(t, r): o, p, b = t; return (o, [], [[] for _ in b])
    def drop_row(t, r): o, p, b = t; i = r.randrange(len(b)) if b else 0; return (o, p, b[:i] + b[i + 1:])
    def add_row(t, r): o, p, b = t; return (o, p, b + [[True] * len(p)])
    def dup_row(t, r): o, p, b = t; return (o, p, b + b[:1])
    def drop_cell(t, r):
        o, p, b = t
        if not b: return t
        b = [list(x) for x in b]; i = r.randrange(len(b)); b[i] = b[i][:-1]; return (o, p, b)
    def add_cell(t, r):
        o, p, b = t
        if not b: return t
        b = [list(x) for x in b]; i = r.randrange(len(b)); b[i] = b[i] + [False]; return (o, p, b)
    def add_cell_all(t, r): o, p, b = t; return (o, p, [list(x) + [True] for x in b])
    def empty_rows(t, r): o, p, b = t; return (o, p, [])
    def truthy_cells(t, r):
        o, p, b = t
        vals = {True: ['X', 1, 2.5, [0]], False: ['', 0, None, ()]}
        return (o, p, [[r.choice(vals[bool(c)]) for c in row] for row in b])
    def strsubclass(t, r): o, p, b = t; return ([_sub(x, r, i) for i, x in enumerate(o)], [_sub(x, r, i) if i % 2 else x for i, x in enumerate(p)], b)
    def tuples(t, r): o, p, b = t; return (tuple(o), tuple(p), tuple(tuple(x) for x in b))
    return dict(locals())


OPS_T = _ops_triple()


def _ops_dict():
    def del_objects(d, r): d.pop('objects', None); return d
    def del_properties(d, r): d.pop('properties', None); return d
    def del_context(d, r): d.pop('context', None); return d
    def del_lattice(d, r): d.pop('lattice', None); return d
    def nonstr_obj(d, r):
        if d.get('objects'): d['objects'] = list(d['objects']); d['objects'][r.randrange(len(d['objects']))] = r.choice([1, None, b'x', 2.0, ('a',)])
        return d
    def nonstr_prop(d, r):
        if d.get('properties'): d['properties'] = list(d['properties']); d['properties'][-1] = r.choice([0, None, b'p'])
        return d
    def drop_ctx_row(d, r):
        if d.get('context'): d['context'] = list(d['context'])[:-1]
        return d
    def add_ctx_row(d, r):
        if 'context' in d: d['context'] = list(d['context']) + [()]
        return d
    def idx_minus(d, r):
        if d.get('context'):
            c = [list(x) for x in d['context']]; i = r.randrange(len(c)); c[i] = c[i] + [-1]; d['context'] = c
        return d
    def idx_m(d, r):
        if d.get('context') and 'properties' in d:
            c = [list(x) for x in d['context']]; i = r.randrange(len(c)); c[i] = c[i] + [len(d['properties'])]; d['context'] = c
        return d
    def idx_huge(d, r):
        if d.get('context'):
            c = [list(x) for x in d['context']]; i = r.randrange(len(c)); c[i] = c[i] + [r.choice([2**40, 2**63, 10**30, 2**31 - 1, -2**40])]; d['context'] = c
        return d
    def idx_shift_up(d, r):
        if d.get('context'):
            c = [list(x) for x in d['context']]; i = r.randrange(len(c)); c[i] = [x + 1 for x in c[i]]; d['context'] = c
        return d
    def idx_repeat(d, r):
        if d.get('context'):
            c = [list(x) for x in d['context']]
            rows = [i for i, x in enumerate(c) if x]
            if rows:
                i = r.choice(rows); c[i] = c[i] + [c[i][0]]; d['context'] = c
        return d
    def empty_lattice(d, r): d['lattice'] = []; return d
    def empty_lattice_tuple(d, r): d['lattice'] = (); return d
    def dup_obj(d, r):
        if d.get('objects') and len(d['objects']) > 1: d['objects'] = list(d['objects']); d['objects'][0] = d['objects'][-1]
        return d
    def overlap(d, r):
        if d.get('objects') and d.get('properties'): d['properties'] = list(d['properties']); d['properties'][0] = d['objects'][0]
        return d
    def overlap_blank(d, r):
        if d.get('objects') and d.get('properties'):
            d['objects'] = list(d['objects']); d['properties'] = list(d['properties'])
            d['objects'][-1] = ''; d['properties'][0] = ''
        return d
    def empty_obj(d, r):
        if 'objects' in d: d['objects'] = []; d['context'] = []
        return d
    def empty_prop(d, r):
        if 'properties' in d: d['properties'] = []; d['context'] = [() for _ in d.get('context', ())]
        return d
    def strsubclass(d, r):
        for k in ('objects', 'properties'):
            if k in d and all(isinstance(x, str) for x in d[k]): d[k] = [_sub(x, r, i) for i, x in enumerate(d[k])]
        return d
    def tuples(d, r):
        for k in ('objects', 'properties'):
            if k in d and isinstance(d[k], list): d[k] = tuple(d[k])
        return d
    def rows_sets(d, r):
        if _seq(d.get('context')): d['context'] = [set(x) if r.random() < .7 else x for x in d['context']]
        return d
    def rows_frozensets(d, r):
        if _seq(d.get('context')): d['context'] = tuple(frozenset(x) for x in d['context'])
        return d
    def rows_tuples(d, r):
        if _seq(d.get('context')): d['context'] = tuple(tuple(x) for x in d['context'])
        return d
    return dict(locals())


TYPE_OPS = ('tuples', 'rows_sets', 'rows_frozensets', 'rows_tuples')      # applied after the others


OPS_D = _ops_dict()


def cases(tier, seed, spec):
    for t in (False, True):
        for c in itertools.chain(gen.hash_twins(seed, 10 if tier == 'quick' else 60, tag='C19HASHTWIN'),
                                 gen.crc_twins(seed, 6 if tier == 'quick' else 40, tag='C19CRCTWIN')):
            yield dict(c, kind='twins', transposed=t)
    base = list(gen.exh(3, 3))
    base += list(gen.rnd(seed, 60 if tier == 'quick' else 600, 6, 6, tag='C19'))
    names_t, names_d = sorted(OPS_T), sorted(OPS_D)
    rng = random.Random(f'{seed}/c19')
    for k, c in enumerate(base):
        yield {'kind': 'valid', 'table': c}
        for op in names_t:
            yield {'kind': 'triple', 'table': c, 'ops': [op], 'salt': k}
        for op in names_d:
            for lat in ((False, True) if k % 4 == 0 else (k % 2 == 0,)):
                yield {'kind': 'dict', 'table': c, 'ops': [op], 'salt': k, 'with_lattice': lat}
        if tier == 'thorough':
            doubles_t = list(itertools.product(names_t, repeat=2))
            doubles_d = list(itertools.product(names_d, repeat=2))
        else:
            doubles_t = rng.sample(list(itertools.product(names_t, repeat=2)), 12)
            doubles_d = rng.sample(list(itertools.product(names_d, repeat=2)), 12)
        for a, b in doubles_t:
            yield {'kind': 'triple', 'table': c, 'ops': [a, b], 'salt': k}
        for a, b in doubles_d:
            yield {'kind': 'dict', 'table': c, 'ops': [a, b], 'salt': k, 'with_lattice': (k + len(a)) % 3 == 0}


def run_twins(concepts, case, spec):
    """Two well-formed tables over the same labels that a cheap fingerprint cannot tell apart (rows congruent
    modulo 2**61 - 1 = equal ``hash()``; equal CRC-32 of the table text), both transposed too, accepted one
    after the other and alive together: each context must keep reproducing its own input."""
    Context = concepts.Context
    o, p = list(case['objects']), list(case['properties'])
    m = len(p)
    tabs = [[[bool(r >> j & 1) for j in range(m)] for r in rs] for rs in (case['rows'], case['twin_rows'])]
    if case.get('transposed'):
        o, p = p, o
        tabs = [[list(col) for col in zip(*t)] for t in tabs]
    live = []
    for k in (0, 1, 0, 1):
        args = (o, p, tabs[k]) if k == 0 or not live else (tuple(o), tuple(p), [tuple(r) for r in tabs[k]])
        c = call(Context, *args)
        if c is RAISED:
            continue
        live.append((c, k))
        d = call(c.todict, True)
        if d is not RAISED:
            c2 = call(Context.fromdict, copy.deepcopy(d))
            if c2 is not RAISED:
                live.append((c2, k))
        cp = call(c.copy)
        if cp is not RAISED:
            live.append((cp, k))
    for c, k in live:
        with core.monitor_code():
            ok, err = _represented(c, o, p, tabs[k])
        COL.count('twin_contexts_rejudged_after_their_twin_was_accepted')
        if not ok:
            COL.violation('driver', 'representation:context-shows-the-table-of-a-twin-accepted-before-or-after-it',
                          [o[:6], p[:6], 'table %d' % k], err or 'bools differ')
            break
    COL.nontrivial('twins', case['fam'], bool(case.get('transposed')), tuple(case['rows']))


def run_case(concepts, case, spec):
    Context = concepts.Context
    if case.get('kind') == 'twins':
        return run_twins(concepts, case, spec)
    c = case['table']
    rng = random.Random(f"{spec['seed']}/{case.get('salt')}/{case.get('ops')}")
    objects, properties = list(c['objects']), list(c['properties'])
    rows = [list(r) for r in gen.bools_of(c)]
    if case['kind'] == 'valid':
        COL.sample(case)
        call(Context, objects, properties, [tuple(r) for r in rows])
        call(Context, tuple(objects), tuple(properties), rows)
        ctx = call(Context, objects, properties, rows)
        if ctx is RAISED:
            return
        d = call(ctx.todict)
        d0 = call(ctx.todict, True)
        loaded = []
        if d is not RAISED and d0 is not RAISED:
            for dd in (d, d0):
                loaded.append(call(Context.fromdict, copy.deepcopy(dd)))
                call(Context.fromdict, copy.deepcopy(dd), ignore_lattice=True)
                call(Context.fromdict, copy.deepcopy(dd), require_lattice=True)
                call(Context.fromdict, copy.deepcopy(dd), raw=True)
        # what the accessors hand out is the caller's to edit: an accepted context keeps reproducing its input
        for who, x in [('Context', ctx)] + [('fromdict', l) for l in loaded[:1] if l is not RAISED]:
            for round_ in range(2):
                b = call(lambda: x.bools)
                if b is RAISED:
                    break
                try:
                    if isinstance(b, list):
                        if round_:
                            b.reverse()
                            b.append(tuple(not v for v in b[0]) if b else ())
                        else:
                            b.pop(rng.randrange(len(b)))
                            b.insert(0, ('edited',))
                        for k, r in enumerate(b):
                            if isinstance(r, list):
                                r[:] = [not v for v in r] + [True]
                    elif isinstance(b, dict):
                        b.clear()
                except Exception:
                    COL.count('returned_bools_not_editable')
                COL.count('returned_bools_edited_then_asked_again')
                with core.monitor_code():
                    ok, err = _represented(x, objects, properties, rows)
                if not ok:
                    COL.violation(who, 'representation:bools-follow-the-edits-of-a-list-handed-out-earlier',
                                  [objects, properties, rows],
                                  err or [list(x.objects), list(x.properties), x.bools])
                    break
            cp = call(x.copy)
            if cp is not RAISED:
                with core.monitor_code():
                    ok, err = _represented(cp, objects, properties, rows)
                COL.count('copy_judged_after_edits')
                if not ok:
                    COL.violation(who, 'representation:copy-differs-from-accepted-input', [objects, properties, rows],
                                  err or [list(cp.objects), list(cp.properties), cp.bools])
        return
    if case['kind'] == 'triple':
        t = (objects, properties, rows)
        for op in case['ops']:
            if op != 'tuples':
                t = (list(t[0]), list(t[1]), [list(x) for x in t[2]])
                t = OPS_T[op](t, rng)
        if 'tuples' in case['ops']:
            t = OPS_T['tuples'](t, rng)
        COL.sample({'ops': case['ops'], 'input': t})
        call(Context, *t)
        # the very same argument objects are submitted again (a caller that retries, or that validates a
        # table first and builds it later), also as tuples, with a well-formed table in between
        call(Context, *t)
        tt = (tuple(t[0]), tuple(t[1]), t[2])
        call(Context, *tt)
        if rng.random() < .5:
            call(Context, tuple(objects), tuple(properties), rows)
        call(Context, *tt)
        call(Context, *t)
        COL.count('same_argument_objects_submitted_again')
        return
    # dict corruption
    ctx = call(Context, objects, properties, rows)
    if ctx is RAISED:
        return
    d = call(ctx.todict, not case.get('with_lattice'))
    if d is RAISED:
        return
    d = {k: (list(v) if isinstance(v, tuple) else v) for k, v in d.items()}
    for op in sorted(case['ops'], key=lambda o: o in TYPE_OPS):      # stable: container types change last
        d = OPS_D[op](d, rng)
    COL.sample({'ops': case['ops'], 'input': d})
    call(Context.fromdict, copy.deepcopy(d))
    same = copy.deepcopy(d)
    call(Context.fromdict, same)
    call(Context.fromdict, same)           # the same document object again
    COL.count('same_argument_objects_submitted_again')
    if rng.random() < .4:
        call(Context.fromdict, copy.deepcopy(d), require_lattice=True)
    if rng.random() < .3:
        call(Context.fromdict, copy.deepcopy(d), ignore_lattice=True)
    if rng.random() < .3:
        call(Context.fromdict, copy.deepcopy(d), raw=True)
