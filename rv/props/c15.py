"""C15 - lattice structure is invariant under relabelling, duplication and transposition."""

import random

from .. import attach, core, gen
from ..core import COL
from . import common
from .common import call, RAISED

META = {
    'rule': ('cases: the standard context stream x {3 row/column permutations, transposition through '
             'Definition.transposed, every (<= 8, else 3 sampled) duplicated row, every duplicated '
             'column, an added full column}. For the original and for each transformed context an '
             'observation log is recorded through the public API (concept set, covering pairs, '
             'join/meet of all pairs (<= 25 concepts, 200 sampled beyond), relations() entries, the '
             'pairs emitted by fast_generate_from and fcbo_dual); '
             'an offline checker relates the two logs as statements about labels: permutation => '
             'identical logs; transposition => extents/intents swapped, covers reversed, join <-> '
             'meet; duplicate row => same family of intents; duplicate/full column => same family of '
             'extents; same number of concepts in each case. No reference model is involved, so '
             'this also guards the shadow model used elsewhere. distinct_nontrivial = distinct '
             '(table, transform) with >= 4 concepts.'),
    'evaluation_counters': ['relations_checked_permutation', 'relations_checked_transposition',
                            'relations_checked_dup_row', 'relations_checked_dup_col',
                            'relations_checked_full_col', 'relations_checked_deep'],
    'required_counters': ['relations_checked_permutation', 'relations_checked_transposition',
                          'relations_checked_dup_row', 'relations_checked_dup_col',
                          'relations_checked_full_col', 'observations_recorded', 'joins_compared', 'relations_checked_deep'],
    'shards': {'quick': 16, 'thorough': 16},
    'exhaustive': {'quick': 'all 682 tables <= 3x3 x all duplicated rows/columns x transposition',
                   'thorough': 'all tables <= 3x3, 3x4, 4x3 x all duplicated rows/columns x transposition'},
    'assumptions': ['relations of symmetric kinds are compared as unordered pairs'],
}

SYMMETRIC = {'equivalent', 'complement', 'incompatible', 'subcontrary', 'orthogonal'}
MAXC = {'quick': 400, 'thorough': 1200}


def context_level(ctx, unions):
    """What the context itself says about object sets (no lattice involved): upper covers, closure,
    common properties - as label-level sets."""
    out = {}
    for u in unions:
        objs = sorted(u)
        nb = ctx.neighbors(objs)
        e, i = ctx[objs] if objs else (ctx.extension(ctx.intension([])), ctx.intension([]))
        out[u] = (frozenset((frozenset(x), frozenset(y)) for x, y in nb), frozenset(e), frozenset(i),
                  frozenset(ctx.intension(objs)))
    COL.count('context_level_answers_recorded', len(out))
    return out


def _unions(pairs):
    seen = []
    for a, b in pairs:
        u = a | b
        if u not in seen:
            seen.append(u)
        if len(seen) >= 25:
            break
    return seen


def observe(ctx, rng_seed, limit, pairs_for=None):
    """Observation log of one context through the public API (label level).

    The context-level answers about unions of extents (``context_level``) are taken *before* the lattice
    exists on transformed contexts and *after* every lattice query on the base context: the same
    statements must come out whatever was asked before."""
    early = None
    if pairs_for is not None and pairs_for[0] == 'e' and 'lattice' not in vars(ctx):
        early = context_level(ctx, _unions(pairs_for[1]))
    lat = ctx.lattice
    members = list(lat)
    if len(members) > limit:
        raise core.CaseTooLarge(len(members))
    fe = lambda c: frozenset(c.extent)
    fi = lambda c: frozenset(c.intent)
    log = {'n': len(lat), 'concepts': {(fe(c), fi(c)) for c in members},
           'covers': {(fe(c), fe(u)) for c in members for u in c.upper_neighbors},
           'lower': {(fe(c), fe(l)) for c in members for l in c.lower_neighbors},
           'order': {(fe(a), fe(b)) for a in members for b in members if a <= b} if len(members) <= 60 else None}
    by_ext = {fe(c): c for c in members}
    by_int = {fi(c): c for c in members}
    if pairs_for is None:
        if len(members) <= 25:
            pairs = [(fe(a), fe(b)) for a in members for b in members]
        else:
            r = random.Random(rng_seed)
            pairs = [(fe(r.choice(members)), fe(r.choice(members))) for _ in range(200)]
        log['pairs'] = pairs
        keyed = [(by_ext[a], by_ext[b], a, b) for a, b in pairs]
    else:
        kind, pairs = pairs_for      # keys given as extents ('e') or intents ('i') of the other side
        src = by_ext if kind == 'e' else by_int
        keyed = [(src[a], src[b], a, b) for a, b in pairs if a in src and b in src]
        log['pairs_missing'] = len(pairs) - len(keyed)
    log['join'] = {(a, b): (fe(x | y), fi(x | y)) for x, y, a, b in keyed}
    log['meet'] = {(a, b): (fe(x & y), fi(x & y)) for x, y, a, b in keyed}
    # the n-ary forms on the same pairs, the collection handed over in rotating shapes
    # (list, one-shot iterator, generator, set, tuple): the same statements must come out
    shapes = [list, iter, lambda v: (c for c in v), set, tuple]
    log['join_n'], log['meet_n'] = {}, {}
    for t, (x, y, a, b) in enumerate(keyed[:120]):
        j = lat.join(shapes[t % 5]([x, y]))
        m = lat.meet(shapes[(t + 2) % 5]([x, y]))
        log['join_n'][a, b] = (fe(j), fi(j))
        log['meet_n'][a, b] = (fe(m), fi(m))
    alg = _CONCEPTS.algorithms
    log['fcbo'] = [(frozenset(e.members()), frozenset(i.members())) for e, i in alg.fast_generate_from(ctx)]
    log['fcbo_dual'] = [(frozenset(e.members()), frozenset(i.members())) for e, i in alg.fcbo_dual(ctx)]
    rel = ctx.relations()
    log['relations'] = {(r.kind, frozenset((r.left, r.right))) if r.kind in SYMMETRIC
                        else (r.kind, r.left, r.right) for r in rel}
    log['relations_n'] = len(rel)
    if early is not None:
        log['ctx_level'] = early
    elif pairs_for is None:
        log['ctx_level'] = context_level(ctx, _unions(log['pairs']))
    else:
        log['ctx_level'] = None
    COL.count('observations_recorded', 4 + len(keyed) * 2)
    return log


def canon(pairs):
    """Canonical multiset of (extent, intent) pairs."""
    return sorted((tuple(sorted(e)), tuple(sorted(i))) for e, i in pairs)


def differ(where, what, a, b):
    COL.violation(where, f'{where}:{what}', core.jsonable(sorted(map(repr, a))[:8]) if isinstance(a, (set, frozenset)) else core.jsonable(a),
                  core.jsonable(sorted(map(repr, b))[:8]) if isinstance(b, (set, frozenset)) else core.jsonable(b))


def setup(concepts, spec):
    global _CONCEPTS
    _CONCEPTS = concepts
    attach.attach_ctor(concepts)


def run_deep(concepts, tier, seed):
    """The same 1 000+-chain listed in three row orders, and its transposes: the two FCbO generators
    must emit the same concepts whatever the order (the lattice itself is too slow to build here)."""
    alg = concepts.algorithms
    logs = {}
    for c in gen.deep(tier, seed):
        n = c['fam'].split(':')[1]
        ctx = common.build_or_skip(concepts, c)
        if ctx is None:
            continue
        entry = {}
        for name, fn in (('fcbo', alg.fast_generate_from), ('fcbo_dual', alg.fcbo_dual)):
            r = call(lambda: [(frozenset(e.members()), frozenset(i.members())) for e, i in fn(ctx)])
            if r is RAISED:
                COL.violation('deep', f'deep:{name}-raised-on-a-row-order', 'all concepts', 'exception', {'case': c['fam']})
                r = None
            entry[name] = None if r is None else canon(r)
        d = call(lambda: ctx.definition().transposed())
        ct = call(concepts.Context, *d) if d is not RAISED else RAISED
        if ct is not RAISED:
            for name, fn in (('T-fcbo', alg.fast_generate_from), ('T-fcbo_dual', alg.fcbo_dual)):
                r = call(lambda: [(frozenset(i.members()), frozenset(e.members())) for e, i in fn(ct)])
                if r is RAISED:
                    COL.violation('deep', f'deep:{name}-raised-on-the-transposed-table', 'all concepts', 'exception', {'case': c['fam']})
                    r = None
                entry[name] = None if r is None else canon(r)
        logs.setdefault(n, {})[c['fam']] = entry
    for n, by_order in logs.items():
        COL.count('relations_checked_deep')
        ref = None
        for fam, entry in by_order.items():
            for name, val in entry.items():
                if val is None:
                    continue
                if ref is None:
                    ref = (fam, name, val)
                elif val != ref[2]:
                    COL.violation('deep', 'deep:generators-disagree-across-row-orders-or-duality',
                                  {'reference': ref[:2], 'n': len(ref[2])}, {'differs': [fam, name], 'n': len(val)})
        if ref is not None:
            COL.nontrivial('deep', n)


def cases(tier, seed, spec):
    yield {'deep_relation': True, 'fam': 'DEEP'}
    yield from gen.hash_twins(seed, 6 if tier == 'quick' else 60)
    yield from gen.ctx_stream(tier, seed, with_wide=False, scale=.6 if tier == 'quick' else .4)


def permute(case, rng, rows=True, cols=True):
    n, m = len(case['objects']), len(case['properties'])
    po, pp = list(range(n)), list(range(m))
    if rows:
        rng.shuffle(po)
    if cols:
        rng.shuffle(pp)
    new_rows = []
    for i in po:
        r = case['rows'][i]
        new_rows.append(sum(((r >> pp[j]) & 1) << j for j in range(m)))
    return {'fam': case['fam'] + ':perm', 'objects': [case['objects'][i] for i in po],
            'properties': [case['properties'][j] for j in pp], 'rows': new_rows}, (po != list(range(n)) or pp != list(range(m)))


def run_case(concepts, case, spec):
    if case.get('deep_relation'):
        return run_deep(concepts, spec['tier'], spec['seed'])
    rng = common.rng_for(case, spec)
    limit = MAXC[spec['tier']]
    ctx = common.build_or_skip(concepts, case)
    if ctx is None:
        return
    try:
        base = observe(ctx, repr(gen.table_key(case)), limit)
    except core.CaseTooLarge:
        raise
    except Exception as e:
        COL.count('observation_raised_not_judged_here')
        # ... unless the same table with its rows and columns permuted can be observed: then the outcome
        # depends on the arrangement, which is what this property excludes
        try:
            pc, moved = permute(case, rng, True, True)
            c2 = common.build_or_skip(concepts, pc)
            if c2 is not None and moved:
                observe(c2, '', limit * 2)
                COL.violation('permutation', 'permutation:observation-raises-for-one-arrangement-only',
                              'the same outcome for every arrangement of rows and columns', repr(e)[:300])
        except core.CaseTooLarge:
            raise
        except Exception:
            pass
        return
    for g in ('fcbo', 'fcbo_dual'):
        if len(base[g]) != len(set(base[g])) or set(base[g]) != base['concepts']:
            differ('self-consistency', f'{g}-differs-from-lattice-concepts', base['concepts'], set(base[g]))
    nontrivial = base['n'] >= 4
    tkey = gen.table_key(case)
    n, m = len(case['objects']), len(case['properties'])

    def obs(c, pairs_for):
        try:
            return observe(c, '', limit * 2, pairs_for)
        except core.CaseTooLarge:
            raise
        except Exception as e:
            COL.violation('driver', 'observation-of-transformed-context-raised', 'a log', repr(e))
            return None

    # 1. permutations --------------------------------------------------------
    for k, (r, c) in enumerate([(True, False), (False, True), (True, True)]):
        pc, moved = permute(case, rng, r, c)
        c2 = common.build_or_skip(concepts, pc)
        if c2 is None:
            continue
        log = obs(c2, ('e', base['pairs']))
        if log is None:
            continue
        COL.count('relations_checked_permutation')
        for key in ('n', 'concepts', 'covers', 'lower', 'join', 'meet', 'join_n', 'meet_n', 'relations', 'relations_n'):
            if log[key] != base[key]:
                differ('permutation', f'{key}-changed', base[key], log[key])
        if base['order'] is not None and log['order'] != base['order']:
            differ('permutation', 'order-changed', base['order'], log['order'])
        if log['ctx_level'] is not None and log['ctx_level'] != base['ctx_level']:
            differ('permutation', 'context-level-answers-depend-on-what-was-asked-before-or-on-the-arrangement',
                   base['ctx_level'], log['ctx_level'])
        for g in ('fcbo', 'fcbo_dual'):
            if canon(log[g]) != canon(base[g]):
                differ('permutation', f'{g}-concepts-changed', set(base[g]), set(log[g]))
        COL.count('joins_compared', len(base['join']))
        if nontrivial and moved:
            COL.nontrivial(tkey, 'perm', k)
    # 2. transposition -----------------------------------------------------------
    d = call(lambda: ctx.definition().transposed())
    if d is not RAISED:
        ct = call(concepts.Context, *d)
        if ct is not RAISED:
            log = obs(ct, ('i', base['pairs']))     # the base extents are the transposed intents
            if log is not None:
                COL.count('relations_checked_transposition')
                if log['n'] != base['n']:
                    differ('transposition', 'number-of-concepts-changed', base['n'], log['n'])
                if log['concepts'] != {(i, e) for e, i in base['concepts']}:
                    differ('transposition', 'concepts-are-not-the-swapped-pairs',
                           {(i, e) for e, i in base['concepts']}, log['concepts'])
                # covers reversed: c <. u in base  <=>  u' <. c' in transposed, stated on base extents
                ext_of = {i: e for e, i in base['concepts']}      # transposed extent -> base extent
                got_cov = {(ext_of.get(b), ext_of.get(a)) for a, b in log['covers']}
                if got_cov != base['covers']:
                    differ('transposition', 'covers-are-not-reversed', base['covers'], got_cov)
                got_low = {(ext_of.get(b), ext_of.get(a)) for a, b in log['lower']}
                if got_low != base['lower']:
                    differ('transposition', 'lower-links-are-not-reversed', base['lower'], got_low)
                # join <-> meet: keys were given as base extents = transposed intents
                for (a, b), (je, ji) in base['join'].items():
                    t = log['meet'].get((a, b))
                    if t is not None and (t[1], t[0]) != (je, ji):
                        differ('transposition', 'meet-of-dual-is-not-join', (je, ji), (t[1], t[0]))
                        break
                for (a, b), (me, mi) in base['meet'].items():
                    t = log['join'].get((a, b))
                    if t is not None and (t[1], t[0]) != (me, mi):
                        differ('transposition', 'join-of-dual-is-not-meet', (me, mi), (t[1], t[0]))
                        break
                for mine, theirs in (('join_n', 'meet_n'), ('meet_n', 'join_n')):
                    for (a, b), (je, ji) in base[mine].items():
                        t = log[theirs].get((a, b))
                        if t is not None and (t[1], t[0]) != (je, ji):
                            differ('transposition', f'n-ary-{theirs[:4]}-of-dual-is-not-{mine[:4]}', (je, ji), (t[1], t[0]))
                            break
                for mine, theirs in (('fcbo', 'fcbo_dual'), ('fcbo_dual', 'fcbo')):
                    if canon(log[mine]) != canon((i, e) for e, i in base[theirs]):
                        differ('transposition', f'{mine}-of-dual-is-not-swapped-{theirs}',
                               {(i, e) for e, i in base[theirs]}, set(log[mine]))
                COL.count('joins_compared', len(base['join']))
                if nontrivial:
                    COL.nontrivial(tkey, 'transpose')
    # 3. duplicate rows -----------------------------------------------------------
    intents = {i for _, i in base['concepts']}
    extents = {e for e, _ in base['concepts']}
    which = range(n) if n <= 8 else rng.sample(range(n), 3)
    for i in which:
        pos = rng.randrange(n + 1)
        objs = list(case['objects'])
        rows = list(case['rows'])
        objs.insert(pos, f'dup·{i}')
        rows.insert(pos, case['rows'][i])
        c2 = common.build_or_skip(concepts, dict(case, objects=objs, rows=rows))
        if c2 is None:
            continue
        lat = common.get_lattice(c2)
        if lat is RAISED:
            COL.violation('driver', 'dup-row:lattice-raised', 'a lattice', 'exception')
            continue
        COL.count('relations_checked_dup_row')
        got = {frozenset(c.intent) for c in lat}
        if got != intents:
            differ('dup-row', 'family-of-intents-changed', intents, got)
        gi = [frozenset(i.members()) for _, i in _CONCEPTS.algorithms.fast_generate_from(c2)]
        if sorted(map(sorted, gi)) != sorted(map(sorted, intents)):
            differ('dup-row', 'fcbo-family-of-intents-changed', intents, set(gi))
        if len(lat) != base['n']:
            differ('dup-row', 'number-of-concepts-changed', base['n'], len(lat))
        if nontrivial:
            COL.nontrivial(tkey, 'duprow', i)
    # 4. duplicate / full columns ------------------------------------------------------
    which = list(range(m) if m <= 8 else rng.sample(range(m), 3)) + ['full']
    for j in which:
        pos = rng.randrange(m + 1)
        props = list(case['properties'])
        props.insert(pos, f'dup·p{j}')
        rows = []
        for r in case['rows']:
            bit = 1 if j == 'full' else (r >> j) & 1
            rows.append((r & ((1 << pos) - 1)) | bit << pos | (r >> pos) << (pos + 1))
        c2 = common.build_or_skip(concepts, dict(case, properties=props, rows=rows))
        if c2 is None:
            continue
        lat = common.get_lattice(c2)
        if lat is RAISED:
            COL.violation('driver', 'dup-col:lattice-raised', 'a lattice', 'exception')
            continue
        kind = 'full_col' if j == 'full' else 'dup_col'
        COL.count('relations_checked_' + kind)
        got = {frozenset(c.extent) for c in lat}
        if got != extents:
            differ(kind.replace('_', '-'), 'family-of-extents-changed', extents, got)
        ge = [frozenset(e.members()) for e, _ in _CONCEPTS.algorithms.fcbo_dual(c2)]
        gi = [frozenset(e.members()) for e, _ in _CONCEPTS.algorithms.fast_generate_from(c2)]
        for name, fam in (('fcbo_dual', ge), ('fcbo', gi)):
            if sorted(map(sorted, fam)) != sorted(map(sorted, extents)):
                differ(kind.replace('_', '-'), f'{name}-family-of-extents-changed', extents, set(fam))
        if len(lat) != base['n']:
            differ(kind.replace('_', '-'), 'number-of-concepts-changed', base['n'], len(lat))
        if nontrivial:
            COL.nontrivial(tkey, kind, j)
    # 5. the same transforms made the documented way: through Definition objects that are edited ----
    #    (transposed()/copy() results get a duplicated row, moved rows and columns; the definition they
    #    were derived from is then turned into a context again and must still give the base lattice)
    if n <= 12 and m <= 12 and base['n'] <= 120:
        d0 = call(ctx.definition)
        t = call(d0.transposed) if d0 is not RAISED else RAISED
        if t is not RAISED:
            j = rng.randrange(m)
            having = [case['objects'][i] for i in range(n) if case['rows'][i] >> j & 1]
            call(t.add_object, f'dup·T{j}', having)
            ct2 = call(concepts.Context, *t)
            lat = common.get_lattice(ct2) if ct2 is not RAISED else RAISED
            if lat is not RAISED:
                COL.count('relations_checked_definition_workflow')
                got = {frozenset(c.intent) for c in lat}
                if got != extents:
                    differ('definition-workflow', 'dup-row-of-transposed:family-of-intents-is-not-the-base-family-of-extents',
                           extents, got)
                if len(lat) != base['n']:
                    differ('definition-workflow', 'dup-row-of-transposed:number-of-concepts-changed', base['n'], len(lat))
            p = call(d0.copy)
            if p is not RAISED:
                if rng.random() < .7:
                    # the copy is looked at first (printed, its cells read), as one does before rearranging a table
                    call(str, p), call(lambda: p.bools), call(p.crc32)
                    COL.count('definitions_read_before_they_are_rearranged')
                for _ in range(3):
                    call(p.move_object, rng.choice(case['objects']), rng.randrange(n))
                    call(p.move_property, rng.choice(case['properties']), rng.randrange(m))
                # the rearranged copy is turned into a context right after the moves (no other edit in between)
                cm = call(concepts.Context, *p)
                latm = common.get_lattice(cm) if cm is not RAISED else RAISED
                if latm is not RAISED:
                    COL.count('relations_checked_definition_workflow')
                    gotm = {(frozenset(c.extent), frozenset(c.intent)) for c in latm}
                    if gotm != base['concepts']:
                        differ('definition-workflow', 'moved-rows-and-columns-copy:concepts-changed', base['concepts'], gotm)
                i = rng.randrange(n)
                call(p.add_object, f'dup·{i}', [case['properties'][k] for k in range(m) if case['rows'][i] >> k & 1])
                cp = call(concepts.Context, *p)
                lat = common.get_lattice(cp) if cp is not RAISED else RAISED
                if lat is not RAISED:
                    got = {frozenset(c.intent) for c in lat}
                    if got != intents or len(lat) != base['n']:
                        differ('definition-workflow', 'moved-and-dup-row-copy:family-of-intents-changed', intents, got)
            # one-axis rearrangements made with take(): the variants are derived first, the source definition
            # is edited afterwards (it is reused to make the duplicated-row / full-column variant), and only
            # then are the variants turned into contexts - they must still be the permuted base table
            variants = []
            src = call(d0.copy)
            if src is not RAISED:
                perm_p = rng.sample(list(case['properties']), m)
                perm_o = rng.sample(list(case['objects']), n)
                for label, kw in (('take-properties-reordered', {'properties': perm_p, 'reorder': True}),
                                  ('take-objects-reordered', {'objects': perm_o, 'reorder': True}),
                                  ('take-all-properties', {'properties': list(case['properties'])}),
                                  ('take-all-objects', {'objects': list(case['objects'])}),
                                  ('take-nothing-given', {})):
                    v = call(src.take, **kw)
                    if v is not RAISED:
                        variants.append((label, v))
                i = rng.randrange(n)
                call(src.add_object, f'dup·{i}', [case['properties'][k] for k in range(m) if case['rows'][i] >> k & 1])
                call(src.add_property, 'full·p', list(src.objects) if hasattr(src, 'objects') else [])
                call(src.move_object, case['objects'][0], n - 1)
                call(src.rename_property, case['properties'][-1], 'renamed·p')
                COL.count('take_variants_source_edited_before_they_are_used', len(variants))
                for label, v in variants:
                    cv = call(concepts.Context, *v)
                    latv = common.get_lattice(cv) if cv is not RAISED else RAISED
                    if latv is RAISED:
                        differ('definition-workflow', f'{label}:no-context-or-lattice', 'a lattice', 'exception')
                        continue
                    COL.count('relations_checked_definition_workflow')
                    gotv = {(frozenset(c.extent), frozenset(c.intent)) for c in latv}
                    if gotv != base['concepts']:
                        differ('definition-workflow', f'{label}:concepts-changed-after-the-source-was-edited',
                               base['concepts'], gotv)
            again = call(concepts.Context, *d0)
            if again is not RAISED:
                log = obs(again, ('e', base['pairs']))
                if log is not None:
                    for key in ('n', 'concepts', 'covers', 'join', 'meet', 'relations'):
                        if log[key] != base[key]:
                            differ('definition-workflow', f'source-definition-after-editing-its-derivatives:{key}-changed',
                                   base[key], log[key])
                            break
            if nontrivial:
                COL.nontrivial(tkey, 'definition-workflow')
    if hash(tkey) % 40 == 0:
        COL.sample({'table': case, 'n_concepts': base['n'], 'transforms': 'perm x3, transpose, dup rows, dup cols, full col, definition workflow'})
