"""C08 - order and logical-relation predicates on concepts match their extents."""

from .. import attach, gen, core
from ..attach import Monitor
from ..core import COL
from . import common
from .common import call, RAISED

CAP = {'quick': 600, 'thorough': 1500}

PREDICATES = {
    # name -> function of (ex, ey, ix, iy, ALL) on shadow masks, as worded in the property
    'implies': lambda ex, ey, ix, iy, ALL: ex & ey == ex,
    'subsumes': lambda ex, ey, ix, iy, ALL: ey & ex == ey,
    'properly_implies': lambda ex, ey, ix, iy, ALL: ex & ey == ex and ex != ey,
    'properly_subsumes': lambda ex, ey, ix, iy, ALL: ey & ex == ey and ex != ey,
    'incompatible_with': lambda ex, ey, ix, iy, ALL: ex & ey == 0,
    'complement_of': lambda ex, ey, ix, iy, ALL: ex & ey == 0 and ex | ey == ALL,
    'subcontrary_with': lambda ex, ey, ix, iy, ALL: ex & ey != 0 and ex | ey == ALL,
    'orthogonal_to': lambda ex, ey, ix, iy, ALL: (ex & ey != 0 and ex & ey != ex and ex & ey != ey
                                                  and ex | ey != ALL),
}
ORDER = ['implies', 'subsumes', 'properly_implies', 'properly_subsumes']
ALIASES = {'implies': '__le__', 'subsumes': '__ge__', 'properly_implies': '__lt__',
           'properly_subsumes': '__gt__'}

META = {
    'rule': ('cases: the standard context stream (decorations supply empty extents, non-empty '
             'bottoms, pairs covering all objects). Per lattice all ordered pairs of concepts '
             '(<= 30 concepts; 500 sampled pairs beyond) x the eight named predicates and the '
             'four comparison operators. Oracle: truthiness vs the set predicate on the shadow '
             'extents as worded in the property; for the order predicates also intent(y) <= '
             'intent(x); antisymmetry over the trace. Calls made by the library itself (heap '
             'tuple comparison, tools.maximal) are judged too. BIGLAT: one Boolean lattice of 16 384 '
             'concepts in the quick tier (65 536 and 131 072 in the thorough tier) with 20 000 / 60 000 '
             'sampled ordered pairs, reflexive and covering pairs being strata of their own. '
             'distinct_nontrivial = distinct '
             '(table, predicate, ordered pair x != y).'),
    'evaluation_counters': ['judged_' + p for p in PREDICATES],
    'required_counters': (['judged_' + p for p in PREDICATES]
                          + [f'{p}_true' for p in PREDICATES] + [f'{p}_false' for p in PREDICATES]
                          + ['antisymmetry_checked', 'judged_orphaned_concepts']),
    'shards': {'quick': 16, 'thorough': 16},
    'exhaustive': {'quick': 'all tables <= 3x3 x all ordered pairs x all predicates',
                   'thorough': 'all tables <= 3x3, 3x4, 4x3, 4x4 x all ordered pairs x all predicates'},
    'assumptions': ['pairs from different lattices are out of scope'],
}

LE = {}    # id(lattice) -> {(a, b): bool} for antisymmetry


class Pred(Monitor):
    def __init__(self, pname, cap):
        self.pname, self.cap = pname, cap
        self.fn = PREDICATES[pname]

    def _scope(self, args, kwargs):
        x = args[0]
        y = common.get_arg(args, kwargs, 1, 'other')
        lat = getattr(x, 'lattice', None)
        if lat is None or getattr(y, 'lattice', None) is not lat:
            return None
        view = common.view_of(lat, self.cap)
        kx, ky = view.by_id.get(id(x)), view.by_id.get(id(y))
        if kx is None or ky is None or view.masks[kx] is None or view.masks[ky] is None:
            return None
        return view, kx, ky

    def after(self, token, args, kwargs, result):
        sc = self._scope(args, kwargs)
        if sc is None:
            COL.count('out_of_scope_foreign_concept')
            return
        view, kx, ky = sc
        (ex, ix), (ey, iy) = view.masks[kx], view.masks[ky]
        want = bool(self.fn(ex, ey, ix, iy, view.sh.ALLO))
        p = self.pname
        COL.count('judged_' + p)
        COL.count(f'{p}_{"true" if want else "false"}')
        try:
            got = bool(result)
        except Exception as e:
            COL.violation(p, f'{p}:result-has-no-truth-value', want, repr(e))
            return
        if got != want:
            COL.violation(p, f'{p}:truthiness-differs-from-extent-predicate', want, got,
                          {'x': repr(args[0]), 'y': repr(args[1]) if len(args) > 1 else None})
        if p in ('implies', 'subsumes'):
            a, b = (kx, ky) if p == 'implies' else (ky, kx)
            # x <= y iff intent(y) subset of intent(x)   (on the observed members)
            ia, ib = view.masks[a][1], view.masks[b][1]
            if want != (ib & ia == ib) and view.sidx[a] is not None and view.sidx[b] is not None:
                raise core.HarnessError('extent order and intent order disagree on shadow concepts')
            log = LE.setdefault(id(view.lattice), {})
            if len(log) < 5000:
                log[(a, b)] = got
        if kx != ky:
            COL.nontrivial(view.sh.key(), p, kx, ky)

    def raised(self, token, args, kwargs, exc):
        if self._scope(args, kwargs) is None:
            COL.count('out_of_scope_foreign_concept')
            return
        COL.count('judged_' + self.pname)
        COL.violation(self.pname, f'{self.pname}:raised-{type(exc).__name__}', 'a truth value', repr(exc))


def flush():
    n = 0
    for log in LE.values():
        for (a, b), v in log.items():
            if a != b and v and log.get((b, a)):
                COL.violation('trace', 'order:distinct-concepts-mutually-le', False, True, {'a': a, 'b': b})
            n += 1
    LE.clear()
    COL.count('antisymmetry_checked', n)


def setup(concepts, spec):
    cap = CAP[spec['tier']]
    attach.attach_ctor(concepts)
    om = concepts.lattice_members.Concept
    rm = concepts.lattice_members.Concept
    for p in PREDICATES:
        owner = om if p in ORDER else rm
        hits = attach.attach(owner, p, Pred(p, cap))
        if p in ORDER and not any(h.endswith(ALIASES[p]) for h in hits):
            COL.count(f'alias_{ALIASES[p]}_not_found')
        common.attach_overrides(concepts, om, [p] + ([ALIASES[p]] if p in ORDER else []), lambda p=p: Pred(p, cap))
    global POOL
    POOL = common.Pool(4)


def run_biglat(concepts, case, spec):
    """More than 65 536 concepts: the predicates of sampled pairs against masks read from the extents."""
    rng = common.rng_for(case, spec)
    ctx = common.build_or_skip(concepts, case)
    if ctx is None:
        return
    sh = attach.shadow_of(ctx)
    lat = call(lambda: ctx.lattice)
    if lat is RAISED:
        COL.violation('driver', 'biglat:construction-raised', 'a lattice', 'exception')
        return
    members = list(lat)
    COL.count('biglat_cases')
    COL.sample({'fam': case['fam'], 'n_concepts': len(members)})
    n = len(members)
    picks = [0, 1, n - 1, n - 2] + [rng.randrange(n) for _ in range(60)]
    for a in picks:
        for b in [a] + rng.sample(picks, 12) + list(members[a].upper_neighbors[:2]) + list(members[a].lower_neighbors[:2]):
            x = members[a]
            y = members[b] if isinstance(b, int) else b
            ex, ey = sh.omask(x.extent), sh.omask(y.extent)
            ix, iy = sh.pmask(x.intent), sh.pmask(y.intent)
            for pname, fn in PREDICATES.items():
                want = bool(fn(ex, ey, ix, iy, sh.ALLO))
                got = call(getattr(x, pname), y) if rng.random() < .5 or pname not in ORDER else call(OPS[ALIASES[pname]], x, y)
                COL.count('judged_' + pname)
                COL.count('judged_biglat_pairs')
                if got is RAISED or bool(got) != want:
                    COL.violation(pname, f'{pname}:truthiness-differs-from-extent-predicate', want,
                                  None if got is RAISED else bool(got), {'x': repr(x)[:120], 'y': repr(y)[:120], 'biglat': case['fam']})
    # a large uniform sample of ordered pairs for the four order predicates (rare index coincidences)
    masks = {}
    for t in range(60000 if spec['tier'] == 'thorough' else 20000):
        a, b = rng.randrange(n), rng.randrange(n)
        if t % 50 == 0:
            b = a                                       # reflexive pairs are a stratum of their own
        elif t % 50 == 1 and members[a].upper_neighbors:
            y = rng.choice(members[a].upper_neighbors)  # ... and so are covering pairs, both ways round
            b = y.index
        elif t % 50 == 2 and members[a].lower_neighbors:
            b = rng.choice(members[a].lower_neighbors).index
        x, y = members[a], members[b]
        ex = masks.get(a)
        if ex is None:
            ex = masks[a] = sh.omask(x.extent)
        ey = masks.get(b)
        if ey is None:
            ey = masks[b] = sh.omask(y.extent)
        for pname in ORDER:
            want = bool(PREDICATES[pname](ex, ey, 0, 0, sh.ALLO))
            got = getattr(x, pname)(y)
            COL.counters['judged_' + pname] += 1
            COL.counters['judged_biglat_pairs'] += 1
            if bool(got) != want:
                COL.violation(pname, f'{pname}:truthiness-differs-from-extent-predicate', want, bool(got),
                              {'x_index': a, 'y_index': b, 'biglat': case['fam']})


def cases(tier, seed, spec):
    yield from gen.biglat(tier, sizes=(16, 17), quick_sizes=(14,))
    yield from gen.ctx_stream(tier, seed)


OPS = {'__le__': lambda a, b: a <= b, '__ge__': lambda a, b: a >= b,
       '__lt__': lambda a, b: a < b, '__gt__': lambda a, b: a > b}


ORPHANS = []


def _orphans(concepts, case, spec):
    """Members of a lattice whose context and lattice are referenced by nobody else afterwards,
    with their shadow masks (the oracle must not need the lattice later)."""
    if len(case['objects']) * len(case['properties']) > 100:
        return None
    ctx = common.build_or_skip(concepts, case)
    if ctx is None:
        return None
    sh = attach.shadow_of(ctx)
    lat = call(lambda: ctx.lattice)
    if lat is RAISED:
        return None
    cs = list(lat)
    try:
        ms = [(sh.omask(c.extent), sh.pmask(c.intent)) for c in cs]
    except KeyError:
        return None
    return cs, ms, sh.ALLO


def run_case(concepts, case, spec):
    if case['fam'].startswith('BIGLAT'):
        return run_biglat(concepts, case, spec)
    rng = common.rng_for(case, spec)
    ctx = common.build_or_skip(concepts, case)
    if ctx is None:
        return
    sh = attach.shadow_of(ctx)
    cap = CAP[spec['tier']]
    sl = sh.lattice(cap)
    lat = common.get_lattice(ctx)
    if lat is RAISED:
        COL.count('lattice_construction_raised')
        return
    members = list(lat)
    n = len(members)
    COL.sample({'table': case, 'n_concepts': sl.n, 'calls': 'all/sampled ordered pairs x 8 predicates + 4 operators'})
    thorough = spec['tier'] == 'thorough'
    if n <= (50 if thorough else 30):
        pairs = [(a, b) for a in range(n) for b in range(n)]
    else:
        pairs = [(rng.randrange(n), rng.randrange(n)) for _ in range(1500 if thorough else 500)]
    for t, (a, b) in enumerate(pairs):
        x, y = members[a], members[b]
        for p in PREDICATES:
            if p in ORDER and t % 2:
                call(OPS[ALIASES[p]], x, y)
            else:
                call(getattr(x, p), y)
    # library-internal callers: traversals and unions compare concepts themselves
    for _ in range(3):
        seeds = [members[rng.randrange(n)] for _ in range(rng.randint(2, 4))]
        call(list, lat.upset_union(seeds))
        call(list, lat.downset_union(seeds))
    if len(ctx.objects) <= 12 and len(ctx.properties) <= 12 and n <= 200:
        common.interference(concepts, ctx, lat, rng, 15)
        for _ in range(10):
            x, y = members[rng.randrange(n)], members[rng.randrange(n)]
            for p in PREDICATES:
                call(getattr(x, p), y)
        COL.count('asked_again_after_interference')
    # concepts that outlive every other reference to their lattice and context
    ORPHANS.append(_orphans(concepts, case, spec))
    if len(ORPHANS) >= 8:
        import gc
        common.drop_views()
        # (ties are weak: they do not keep a lattice alive)
        gc.collect()
        for held in ORPHANS:
            if held is None:
                continue
            cs, ms, ALL = held
            for _ in range(6):
                i, j = rng.randrange(len(cs)), rng.randrange(len(cs))
                (ex, ix), (ey, iy) = ms[i], ms[j]
                for pname, fn in PREDICATES.items():
                    want = bool(fn(ex, ey, ix, iy, ALL))
                    got = call(getattr(cs[i], pname), cs[j])
                    COL.count('judged_orphaned_concepts')
                    if got is RAISED:
                        COL.violation(pname, f'{pname}:raised-on-concepts-that-outlived-their-lattice', want, 'exception')
                    elif bool(got) != want:
                        COL.violation(pname, f'{pname}:truthiness-differs-on-concepts-that-outlived-their-lattice', want, bool(got))
        ORPHANS.clear()
    old = POOL.older(rng)
    if old is not None:
        a, b = rng.choice(old), rng.choice(old)
        call(lambda: a <= b)
        call(a.orthogonal_to, b)
        call(lambda: a <= members[0])         # foreign pair: out of scope
        COL.count('session_requeries')
    POOL.add(members)
    with core.monitor_code():
        flush()
