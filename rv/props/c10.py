"""C10 - reduced labelling: every object and property labels exactly its own concept."""

import pickle
import random

import collections

from .. import attach, gen, core
from ..attach import Monitor
from ..core import COL
from ..shadow import bits
from . import common
from .common import call, RAISED
from .c06 import permuted_dict, structured_raw_dict, RAW_HOWS

CAP = {'quick': 1500, 'thorough': 3000}

META = {
    'rule': ('cases: the standard context stream; decorated tables are mandatory (duplicate rows/'
             'columns => several labels on one concept, full row => label on the bottom, full/empty '
             'column => label on top/bottom). Every lattice is judged at construction, after '
             'loading (ordered and raw), after unpickling and at the driver\'s quiescent point, and '
             'older live lattices are re-judged after newer ones were built (class-level label '
             'defaults must not leak). Invariant: each object occurs in .objects of exactly one '
             'member, the object concept found by definition on the shadow; each property in '
             '.properties of exactly one member, the attribute concept; context order inside a '
             'label; extent = union of object labels over the shadow downset, intent = union of '
             'property labels over the upset; concept.atoms = lattice atoms <= concept in atom '
             'order. Call monitors: str(concept)/str(lattice) are defined and show the labels (layout not judged). '
             'distinct_nontrivial = distinct tables with a concept carrying >= 2 labels of one '
             'kind or a label on an extreme concept.'),
    'evaluation_counters': ['judged_labels', 'judged_str_concept', 'judged_str_lattice'],
    'required_counters': ['judged_labels', 
                          'judged_labels_loaded_raw', 'judged_labels_unpickled',
                          'judged_labels_session_recheck', 'judged_str_concept', 'judged_str_lattice',
                          'concepts_with_several_object_labels', 'concepts_with_several_property_labels',
                          'label_on_bottom', 'label_on_top'],
    'shards': {'quick': 16, 'thorough': 16},
    'exhaustive': {'quick': 'all 682 boolean tables <= 3x3',
                   'thorough': 'all boolean tables <= 3x3, 3x4, 4x3, 4x4'},
    'assumptions': ['labels are read through Concept.objects/.properties/.atoms'],
}
META['rule'] += (' BIGLAT: additionally the Boolean lattice of 16 384 concepts (contranominal scale 14) in the quick '
                 'tier and those of 32 768 and 65 536 concepts in the thorough tier.')


def judge_labels(lat, cap, origin):
    view = common.view_of(lat, cap)
    sl, sh = view.sl, view.sh
    COL.count('judged_labels')
    COL.count('judged_labels_' + origin)
    if not view.faithful():
        # which concepts there are is C03/C06's business; what C10 states about the members that are
        # there does not depend on it: every object / property labels exactly one of them
        COL.count('unfaithful_lattice_label_occurrences_only')
        try:
            occ_o = collections.Counter(o for c in view.members for o in c.objects)
            occ_p = collections.Counter(p_ for c in view.members for p_ in c.properties)
        except Exception as e:
            COL.violation('labels', 'labels:unreadable', None, repr(e), {'origin': origin})
            return
        bad_o = [o for o in sh.objects if occ_o.get(o, 0) != 1]
        bad_p = [p_ for p_ in sh.properties if occ_p.get(p_, 0) != 1]
        if bad_o or bad_p:
            COL.violation('labels', 'labels:name-does-not-label-exactly-one-member',
                          'each object and each property in the label of exactly one member',
                          {'objects': {o: occ_o.get(o, 0) for o in bad_o[:5]},
                           'properties': {p_: occ_p.get(p_, 0) for p_ in bad_p[:5]}},
                          {'origin': origin, 'members': len(view.members), 'concepts': sl.n})
        return
    members = view.members
    if origin != 'quiescent':
        common.previsit(members, sh, ('atoms', 'objects', 'properties'))
    want_obj = [[] for _ in members]
    want_prop = [[] for _ in members]
    for i in range(sh.n):
        want_obj[sl.object_concept(i)].append(sh.objects[i])
    for j in range(sh.m):
        want_prop[sl.attribute_concept(j)].append(sh.properties[j])
    nontrivial = False
    for k, c in enumerate(members):
        try:
            got_o, got_p = tuple(c.objects), tuple(c.properties)
        except Exception as e:
            COL.violation('labels', 'labels:unreadable', None, repr(e), {'origin': origin})
            return
        if got_o != tuple(want_obj[k]):
            COL.violation('labels', 'labels:objects-label-differs-from-object-concepts',
                          want_obj[k], got_o, {'concept': repr(c), 'origin': origin})
        if got_p != tuple(want_prop[k]):
            COL.violation('labels', 'labels:properties-label-differs-from-attribute-concepts',
                          want_prop[k], got_p, {'concept': repr(c), 'origin': origin})
        if len(want_obj[k]) >= 2:
            COL.count('concepts_with_several_object_labels')
            nontrivial = True
        if len(want_prop[k]) >= 2:
            COL.count('concepts_with_several_property_labels')
            nontrivial = True
    if want_obj[0] or want_prop[0]:
        COL.count('label_on_bottom')
        nontrivial = True
    if want_obj[-1] or want_prop[-1]:
        COL.count('label_on_top')
        nontrivial = True
    # consequences, checked on the *observed* labels (needs the order matrix: not for big lattices)
    for k, c in enumerate(members if not sl.big else ()):
        e = 0
        for d in bits(sl.down(k)):
            e |= sh.omask(x for x in members[d].objects if x in sh.oidx)
        i = 0
        for u in bits(sl.up(k)):
            i |= sh.pmask(x for x in members[u].properties if x in sh.pidx)
        if (e, i) != view.masks[k]:
            COL.violation('labels', 'labels:extent-or-intent-is-not-the-union-of-labels',
                          [sh.olabels(view.masks[k][0]), sh.plabels(view.masks[k][1])],
                          [sh.olabels(e), sh.plabels(i)], {'concept': repr(c), 'origin': origin})
    try:
        lat_atoms = tuple(lat.atoms)
    except Exception as e:
        COL.violation('labels', 'labels:lattice-atoms-unreadable', None, repr(e))
        return
    for k, c in enumerate(members):
        want = [a for a in lat_atoms
                if id(a) in view.by_id and sl.leq(view.by_id[id(a)], k)]
        try:
            got = tuple(c.atoms)
        except Exception as e:
            COL.violation('labels', 'labels:concept-atoms-unreadable', None, repr(e), {'origin': origin})
            break
        if len(got) != len(want) or any(a is not b for a, b in zip(got, want)):
            COL.violation('labels', 'labels:concept-atoms-differ-from-atoms-below',
                          [repr(a) for a in want], [repr(a) for a in got],
                          {'concept': repr(c), 'origin': origin})
    if nontrivial:
        COL.nontrivial(sh.key())


class InitHook(Monitor):
    def __init__(self, cap):
        self.cap = cap

    def after(self, token, args, kwargs, result):
        if common.get_arg(args, kwargs, 2, 'infimum', ()):
            return
        common.tie(args[0], common.get_arg(args, kwargs, 1, 'context'))
        if common.DEFER[0]:     # the driver reads this lattice first (in its own order, possibly cut short)
            COL.count('construction_hook_deferred_to_the_driver')
            return
        judge_labels(args[0], self.cap, 'init')


class FromlistHook(Monitor):
    def __init__(self, cap):
        self.cap = cap

    def after(self, token, args, kwargs, result):
        # classmethod: args = (cls, context, stored_list, unordered)
        ctx = common.get_arg(args, kwargs, 1, 'context')
        if not common.stored_list_in_scope(ctx, common.get_arg(args, kwargs, 2, 'lattice'),
                                           common.get_arg(args, kwargs, 3, 'unordered', False), self.cap):
            COL.count('out_of_scope_unordered_list_without_raw')
            return
        common.tie(result, ctx)
        judge_labels(result, self.cap, 'fromlist')


def _expected_str(c):
    ext = ', '.join(c.extent)
    int_ = ' '.join(c.intent)
    s = '{%s} <-> [%s]' % (ext, int_)
    if c.objects:
        s += ' <=> ' + ' '.join(c.objects)
    if c.properties:
        s += ' <=> ' + ' '.join(c.properties)
    return s


class StrConcept(Monitor):
    """str(concept) must be defined and show the concept's extent, intent and own labels (the
    exact layout is not part of the property; the documented one is only counted)."""
    def after(self, token, args, kwargs, result):
        c = args[0]
        COL.count('judged_str_concept')
        if not isinstance(result, str):
            COL.violation('str(concept)', 'str-concept:not-a-string', 'str', repr(result))
            return
        missing = [x for x in list(c.extent) + list(c.intent) + list(c.objects) + list(c.properties)
                   if x not in result]
        if missing:
            COL.violation('str(concept)', 'str-concept:label-not-shown', missing[:5], result)
        if result == _expected_str(c):
            COL.count('str_concept_has_documented_layout')

    def raised(self, token, args, kwargs, exc):
        COL.count('judged_str_concept')
        COL.violation('str(concept)', f'str-concept:raised-{type(exc).__name__}', 'a string', repr(exc))


class StrLattice(Monitor):
    def after(self, token, args, kwargs, result):
        lat = args[0]
        COL.count('judged_str_lattice')
        if not isinstance(result, str):
            COL.violation('str(lattice)', 'str-lattice:not-a-string', 'text', repr(result))
            return
        members = list(lat)
        # every member's own string appears in the text, in iteration order
        pos = 0
        for c in members:
            k = result.find(str(c), pos)
            if k < 0:
                COL.violation('str(lattice)', 'str-lattice:member-not-listed-in-order', str(c), result[:300])
                return
            pos = k + 1
        if result.split('\n')[1:] == ['    ' + _expected_str(c) for c in members]:
            COL.count('str_lattice_has_documented_layout')

    def raised(self, token, args, kwargs, exc):
        COL.count('judged_str_lattice')
        COL.violation('str(lattice)', f'str-lattice:raised-{type(exc).__name__}', 'a string', repr(exc))


def setup(concepts, spec):
    cap = CAP[spec['tier']]
    attach.attach_ctor(concepts)
    attach.attach(concepts.lattice_members.Concept, '__str__', StrConcept())
    attach.attach(concepts.lattices.Lattice, '__str__', StrLattice())
    for owner, name, mon in [(concepts.lattices.Lattice, '__init__', InitHook(cap)),
                             (concepts.lattices.Lattice, '_fromlist', FromlistHook(cap))]:
        try:
            attach.attach(owner, name, mon)
        except (KeyError, core.HarnessError):
            COL.count(f'hook_unavailable_{name}')
    global POOL
    POOL = common.Pool(6)


def cases(tier, seed, spec):
    yield from gen.biglat(tier, quick_sizes=(14,))
    yield from gen.ctx_stream(tier, seed)


def run_case(concepts, case, spec):
    rng = common.rng_for(case, spec)
    ctx = common.build_or_skip(concepts, case)
    if ctx is None:
        return
    sh = attach.shadow_of(ctx)
    if case['fam'].startswith('BIGLAT'):
        sh.cap_override = 70000
        COL.count('biglat_cases')
    cap = CAP[spec['tier']]
    sl = sh.lattice(cap)
    lat = common.get_lattice(ctx)
    if lat is RAISED:
        COL.violation('driver', 'construction:raised', f'{sl.n} concepts', 'exception from context.lattice')
        return
    COL.sample({'table': case, 'n_concepts': sl.n,
                'object_concepts': {sh.objects[i]: list(sh.olabels(sl.extents[sl.object_concept(i)]))
                                    for i in range(min(sh.n, 6))}})
    with core.monitor_code():
        judge_labels(lat, cap, 'quiescent')
    if hash(gen.table_key(case)) % 4 == 0:      # a second lattice built on the very same context object
        lat2 = call(concepts.lattices.Lattice, ctx)
        if lat2 is not RAISED:
            with core.monitor_code():
                common.drop_views()
                judge_labels(common.tie(lat2, ctx), cap, 'second_lattice')
                common.drop_views()
            COL.count('second_lattice_on_same_context')
    if hash(gen.table_key(case)) % 5 == 1:      # the cached lattice is dropped and computed again
        vars(ctx).pop('lattice', None)
        lat3 = common.get_lattice(ctx)
        if lat3 is not RAISED:
            with core.monitor_code():
                common.drop_views()
                judge_labels(lat3, cap, 'recomputed')
                common.drop_views()
            COL.count('lattice_recomputed_after_dropping_the_cache')
    members = list(lat)
    for c in rng.sample(members, min(len(members), 12)):
        call(str, c)
    if len(members) <= 200:
        call(str, lat)
    if spec.get('replay') is not None or hash(gen.table_key(case)) % 3 != 2:
        d = call(ctx.todict)
        if d is not RAISED:
            c2 = call(concepts.Context.fromdict, d)
            if c2 is not RAISED and 'lattice' in vars(c2):
                with core.monitor_code():
                    judge_labels(common.tie(c2.lattice, c2), cap, 'loaded')
            c3 = call(concepts.Context.fromdict, permuted_dict(d, rng), raw=True)
            if c3 is not RAISED and 'lattice' in vars(c3):
                with core.monitor_code():
                    judge_labels(common.tie(c3.lattice, c3), cap, 'loaded_raw')
            c4 = call(concepts.Context.fromdict, structured_raw_dict(d, rng, RAW_HOWS[hash(gen.table_key(case)) % 4]), raw=True)
            if c4 is not RAISED and 'lattice' in vars(c4):
                with core.monitor_code():
                    judge_labels(common.tie(c4.lattice, c4), cap, 'loaded_raw')
        if sl.n <= 250:
            try:
                ctx2, lat2 = pickle.loads(pickle.dumps((ctx, lat)))
            except Exception:
                COL.count('pickle_failed_not_judged_here')
            else:
                common.tie(lat2, ctx2)
                with core.monitor_code():
                    judge_labels(lat2, cap, 'unpickled')
    if len(ctx.objects) <= 12 and len(ctx.properties) <= 12 and sl.n <= 200:
        common.interference(concepts, ctx, lat, rng, 15)
        with core.monitor_code():
            common.drop_views()
            judge_labels(lat, cap, 'after_interference')
        COL.count('asked_again_after_interference')
    old = POOL.older(rng)
    if old is not None:
        with core.monitor_code():
            common.drop_views()
            judge_labels(common.tie(*old), cap, 'session_recheck')
    POOL.add((lat, ctx))
