"""C18 - attributes() enumerates exactly the generating property sets, shortest first."""

import itertools

from .. import attach, gen, core
from ..attach import Monitor
from ..core import COL
from ..shadow import bits, mask_of, popcount
from . import common
from .common import call, RAISED

CAP = {'quick': 600, 'thorough': 1500}
MAX_INTENT = {'quick': 10, 'thorough': 13}

META = {
    'rule': ('cases: the standard context stream restricted to tables whose intents stay within '
             'the bound (quick <= 10, thorough <= 13 properties). Per lattice: attributes() '
             '(recording proxy, exhausted and abandoned runs) and minimal() of every concept. '
             'Oracle: brute-force enumeration of all subsets of the intent in (size, positions) '
             'order keeping those whose shadow extension equals the extent; empty extent => just '
             'the full intent; minimal() = first yielded set for every concept that is not the '
             'infimum, infimum.minimal() = its full intent (documented override). For each '
             'yielded set the monitor also calls lattice(set) and requires the very concept '
             'back. BIGINTENT (17-18 wide, brute force), FULLINTENT (21-22 wide, 2-4 million generating sets '
             'enumerated to the end and judged item by item - generating, in context order, strictly '
             'shortlex - with the total from inclusion-exclusion over the other rows), WIDEINTENT (26-30 '
             'wide, prefixes). distinct_nontrivial = distinct (table, concept) with >= 2 incomparable '
             'generating sets.'),
    'evaluation_counters': ['judged_attributes', 'judged_minimal'],
    'required_counters': ['judged_attributes', 'judged_minimal', 'judged_minimal_infimum',
                          'judged_empty_extent', 'judged_nonempty_bottom', 'judged_abandoned',
                          'regenerated_via_lattice_call', 'interleaved_enumerations', 'bigintent_cases', 'judged_attributes_prefix_of_wide_intent',
                          'judged_attributes_streamed_wide_intent'],
    'shards': {'quick': 16, 'thorough': 16},
    'exhaustive': {'quick': 'all tables <= 3x3 x all concepts', 'thorough': 'all tables <= 3x3, 3x4, 4x3, 4x4 x all concepts'},
    'assumptions': ['intents larger than the bound are skipped (counted)'],
}


def generators(sh, e, i):
    """All subsets of intent ``i`` generating extent ``e`` in shortlex order."""
    if e == 0:
        return [i]
    pos = bits(i)
    out = []
    for r in range(len(pos) + 1):
        for comb in itertools.combinations(pos, r):
            m = mask_of(comb)
            if sh.extension(m) == e:
                out.append(m)
    return out


def generators_prefix(sh, e, i, count):
    """The first ``count`` generating subsets of intent ``i`` in shortlex order (lazy: usable for intents
    far too wide for the full 2^n enumeration, as long as the prefix stays among the small sizes)."""
    if e == 0:
        return [i]
    pos = bits(i)
    out = []
    tried = 0
    for r in range(len(pos) + 1):
        for comb in itertools.combinations(pos, r):
            tried += 1
            if tried > 400000:
                raise core.CaseTooLarge(tried)
            m = mask_of(comb)
            if sh.extension(m) == e:
                out.append(m)
                if len(out) >= count:
                    return out
    return out


def count_generators(sh, e, i):
    """Number of subsets of intent ``i`` whose extension is exactly ``e`` - by inclusion-exclusion over
    the objects outside ``e`` (a subset fails iff it fits into the row of one of them)."""
    if e == 0:
        return 1
    rows = {sh.rows[g] & i for g in range(sh.n) if not e >> g & 1}
    rows = [r for r in rows if not any(r != q and r & q == r for q in rows)]      # maximal ones
    if len(rows) > 16:
        raise core.CaseTooLarge(len(rows))
    inside = 0
    for t in range(1, 1 << len(rows)):
        common_ = i
        for x in bits(t):
            common_ &= rows[x]
        inside += (1 if popcount(t) % 2 else -1) << popcount(common_)
    return (1 << popcount(i)) - inside


def streaming(gen_obj, sh, e, i, c):
    """Iterator proxy for intents with millions of generating sets: nothing is stored; every item
    is judged as it passes (a generating subset of the intent, strictly after its predecessor in
    shortlex order), the number of items at exhaustion against ``count_generators``."""
    def proxy():
        n = 0
        prev = None
        bad = None
        complete = False
        pidx = sh.pidx
        extension = sh.extension
        try:
            for t in gen_obj:
                n += 1
                if bad is None:
                    try:
                        pos = [pidx[x] for x in t]
                    except (KeyError, TypeError):
                        bad = ('attributes:wide-intent-item-has-unknown-names', None, repr(t)[:200])
                    else:
                        m = 0
                        for x in pos:
                            m |= 1 << x
                        key = (len(pos), pos)
                        if m & ~i or extension(m) != e:
                            bad = ('attributes:wide-intent-item-does-not-generate-the-concept', None, list(t)[:30])
                        elif pos != sorted(pos) or len(set(pos)) != len(pos):
                            bad = ('attributes:wide-intent-item-not-in-context-order', None, list(t)[:30])
                        elif prev is not None and not prev < key:
                            bad = ('attributes:wide-intent-items-not-strictly-shortlex', None, list(t)[:30])
                        prev = key
                yield t
            complete = True
        finally:
            COL.depth += 1
            try:
                COL.count('judged_attributes')
                COL.count('judged_attributes_streamed_wide_intent')
                COL.count('streamed_items', n)
                if bad is not None:
                    COL.violation('attributes', bad[0], bad[1], bad[2], {'concept': repr(c)[:200], 'items_seen': n})
                elif complete:
                    want = count_generators(sh, e, i)
                    if n != want:
                        COL.violation('attributes', 'attributes:wide-intent-number-of-generating-sets-differs', want, n,
                                      {'concept': repr(c)[:200], 'last_item_size': prev[0] if prev else None})
            finally:
                COL.depth -= 1
    return proxy()


def _view(c, cap):
    lat = getattr(c, 'lattice', None)
    if lat is None:
        return None, None
    view = common.view_of(lat, cap)
    return view, view.by_id.get(id(c))


class AttributesMonitor(Monitor):
    def __init__(self, cap, bound):
        self.cap, self.bound = cap, bound

    def after(self, token, args, kwargs, result):
        c = args[0]
        view, k = _view(c, self.cap)
        if view is None or k is None or view.masks[k] is None:
            COL.count('out_of_scope_unknown_concept')
            return
        e, i = view.masks[k]
        sh = view.sh
        wide = len(bits(i)) > (STATE['bound'] or self.bound)
        if wide and STATE.get('stream'):
            return attach.Replace(streaming(result, sh, e, i, c))
        if wide and not STATE.get('prefix_only'):
            COL.count('skipped_intent_too_large')
            return
        lat = view.lattice

        def judge_prefix(items, complete, exc):
            # intent too wide for the full enumeration: the run (abandoned by the driver after a few
            # hundred items) must be exactly the first generating subsets in shortlex order
            COL.count('judged_attributes')
            COL.count('judged_attributes_prefix_of_wide_intent')
            if exc is not None:
                COL.violation('attributes', f'attributes:raised-{type(exc).__name__}', 'generating sets', repr(exc))
                return
            got = [tuple(t) for t in items]
            want = [sh.plabels(m) for m in generators_prefix(sh, e, i, len(got) + (1 if complete else 0))]
            if got != want[:len(got)] or (complete and len(want) > len(got)):
                k_ = next((x for x, (a, b) in enumerate(zip(got, want)) if a != b), min(len(got), len(want)))
                COL.violation('attributes', 'attributes:prefix-of-wide-intent-differs',
                              want[max(0, k_ - 1):k_ + 2], got[max(0, k_ - 1):k_ + 2], {'concept': repr(c), 'position': k_})
        if wide:
            return attach.Replace(common.recording(result, judge_prefix, 'attributes'))

        def judge(items, complete, exc):
            COL.count('judged_attributes')
            if exc is not None:
                COL.violation('attributes', f'attributes:raised-{type(exc).__name__}', 'generating sets', repr(exc))
                return
            want = generators(sh, e, i)
            want_labels = [sh.plabels(m) for m in want]
            got = [tuple(t) for t in items]
            if e == 0:
                COL.count('judged_empty_extent')
            elif k == 0:
                COL.count('judged_nonempty_bottom')
            if complete:
                if got != want_labels:
                    mech = ('attributes:order-differs' if sorted(got) == sorted(want_labels)
                            else 'attributes:sets-differ')
                    COL.violation('attributes', mech, want_labels[:10], got[:10], {'concept': repr(c)})
            else:
                COL.count('judged_abandoned')
                if got != want_labels[:len(got)]:
                    COL.violation('attributes', 'attributes:abandoned-run-is-not-a-prefix',
                                  want_labels[:len(got)], got, {'concept': repr(c)})
            for t in got[:40]:
                try:
                    back = lat(t)
                except Exception as ex:
                    COL.violation('attributes', 'attributes:yielded-set-not-accepted-by-lattice-call', repr(c), repr(ex))
                    break
                COL.count('regenerated_via_lattice_call')
                if back is not c and e != 0:
                    COL.violation('attributes', 'attributes:yielded-set-does-not-regenerate-the-concept',
                                  repr(c), repr(back), {'set': t})
                    break
            minimal = [a for a in want if not any(b != a and b & a == b for b in want)]
            if len(minimal) >= 2:
                COL.nontrivial(sh.key(), k)
        return attach.Replace(common.recording(result, judge, 'attributes'))

    def raised(self, token, args, kwargs, exc):
        COL.count('judged_attributes')
        COL.violation('attributes', f'attributes:raised-{type(exc).__name__}', 'an iterator', repr(exc))


class MinimalMonitor(Monitor):
    def __init__(self, cap, bound, infimum_override):
        self.cap, self.bound, self.override = cap, bound, infimum_override

    def after(self, token, args, kwargs, result):
        c = args[0]
        view, k = _view(c, self.cap)
        if view is None or k is None or view.masks[k] is None:
            COL.count('out_of_scope_unknown_concept')
            return
        e, i = view.masks[k]
        sh = view.sh
        if len(bits(i)) > (STATE['bound'] or self.bound) and e != 0 and k != 0:
            if not STATE.get('prefix_only'):
                COL.count('skipped_intent_too_large')
                return
            COL.count('judged_minimal')
            want = sh.plabels(generators_prefix(sh, e, i, 1)[0])
            if tuple(result) != want:
                COL.violation('minimal', 'minimal:not-the-first-generating-set', want, tuple(result), {'concept': repr(c)})
            return
        COL.count('judged_minimal')
        if k == 0:
            COL.count('judged_minimal_infimum')
            want = sh.plabels(i)
        else:
            want = sh.plabels(generators(sh, e, i)[0])
        if tuple(result) != want:
            COL.violation('minimal', 'minimal:infimum-not-full-intent' if k == 0 else 'minimal:not-the-first-generating-set',
                          want, tuple(result), {'concept': repr(c)})

    def raised(self, token, args, kwargs, exc):
        COL.count('judged_minimal')
        COL.violation('minimal', f'minimal:raised-{type(exc).__name__}', 'a tuple', repr(exc))


def setup(concepts, spec):
    cap, bound = CAP[spec['tier']], MAX_INTENT[spec['tier']]
    attach.attach_ctor(concepts)
    lm = concepts.lattice_members
    attach.attach(lm.Concept, 'attributes', AttributesMonitor(cap, bound))
    attach.attach(lm.Concept, 'minimal', MinimalMonitor(cap, bound, False))
    if 'minimal' in vars(lm.Infimum):
        attach.attach(lm.Infimum, 'minimal', MinimalMonitor(cap, bound, True))
    else:
        COL.count('Infimum.minimal_override_absent')
    # overrides in the member subclasses (Infimum, Atom, Supremum, ...) are separate functions: a refactoring that
    # adds one must not take those receivers out of the monitors' sight
    for name, cls in sorted(vars(lm).items()):
        if isinstance(cls, type) and issubclass(cls, lm.Concept) and cls is not lm.Concept:
            if 'attributes' in vars(cls):
                attach.attach(cls, 'attributes', AttributesMonitor(cap, bound))
                COL.count('subclass_overrides_monitored')
            if 'minimal' in vars(cls) and cls is not lm.Infimum:
                attach.attach(cls, 'minimal', MinimalMonitor(cap, bound, False))
                COL.count('subclass_overrides_monitored')
    global POOL
    POOL = common.Pool(5)


def bigintent_cases(tier):
    """A concept with 17-18 properties in its intent (> 65 536 subsets): thresholds inside the
    enumeration only show there; the driver suspends its enumeration while others run."""
    import random as _r
    for k, m in enumerate([17, 17] if tier == 'quick' else [17, 17, 18, 18, 17]):
        rng = _r.Random(f'bigintent{m}/{k}')
        full = (1 << m) - 1
        last = 1 << (m - 1)
        if k % 2 == 0:
            rows = [full, full & ~(1 << 3), full & ~last, rng.getrandbits(m), rng.getrandbits(m),
                    full & ~1 & ~(1 << 5), rng.getrandbits(m) | rng.getrandbits(m)]
        else:
            # the rows that contain the last property are narrow, rows without it are wide
            rows = [full, full & ~last, full & ~last & ~1, last, last | 1, last | (1 << 4) | 2,
                    (rng.getrandbits(m) | rng.getrandbits(m)) & ~last, full & ~last & ~(1 << 7)]
        yield dict(gen.case(f'BIGINTENT{m}', rows, m, 'plain'), bigintent=True)


def wideintent_cases(tier):
    """An intent of 26-30 properties with a size gap between its minimal generating sets: one single
    property generates the concept, the next minimal generating set has three properties."""
    import random as _r
    for k, m in enumerate([26] if tier == 'quick' else [26, 28, 30]):
        rng = _r.Random(f'wideintent{m}')
        full = (1 << m) - 1
        a, b, c3 = rng.sample(range(1, m), 3)
        rows = [full, full & ~1 & ~(1 << a), full & ~1 & ~(1 << b), full & ~1 & ~(1 << c3)]
        for _ in range(3):
            rows.append(rng.getrandbits(m) & ~1 & ~(1 << a))
        yield dict(gen.case(f'WIDEINTENT{m}', rows, m, 'plain'), wideintent=True)


def fullintent_cases(tier):
    """An intent of 21-22 properties enumerated to the end (millions of generating sets), judged item by
    item without storing them; no other object comes closer to the intent than two properties."""
    import random as _r
    for k, m in enumerate([21] if tier == 'quick' else [21, 22, 21]):
        rng = _r.Random(f'fullintent{m}/{k}')
        full = (1 << m) - 1
        rows = [full]
        for _ in range(2 + k):
            r = rng.getrandbits(m) | rng.getrandbits(m)
            for x in rng.sample(range(m), 2 + k % 2):
                r &= ~(1 << x)
            rows.append(r)
        if k == 2:
            rows.append(full)           # the wide intent belongs to a two-object extent
        yield dict(gen.case(f'FULLINTENT{m}', rows, m, 'rev'), fullintent=True)
    # every object has every property: the lattice is a single concept whose extent is not empty and whose
    # intent is generated by every subset of it, the empty one first
    for m, n in ([(17, 3)] if tier == 'quick' else [(17, 3), (18, 2), (19, 1), (17, 1)]):
        yield dict(gen.case(f'FULLINTENT-ALLTRUE{m}', [(1 << m) - 1] * n, m, 'rev'), fullintent=True)


def run_fullintent(concepts, case, spec):
    ctx = common.build_or_skip(concepts, case)
    if ctx is None:
        return
    lat = common.get_lattice(ctx)
    if lat is RAISED:
        return
    members = list(lat)
    COL.count('fullintent_cases')
    big = max(members, key=lambda c: (len(c.intent) if c.extent else -1))
    STATE['stream'] = True
    try:
        g = call(big.attributes)
        if g is RAISED:
            return
        for _ in g:         # to the very end, nothing kept
            pass
        call(big.minimal)
    finally:
        STATE['stream'] = False


def run_wideintent(concepts, case, spec):
    ctx = common.build_or_skip(concepts, case)
    if ctx is None:
        return
    lat = common.get_lattice(ctx)
    if lat is RAISED:
        return
    members = list(lat)
    COL.count('wideintent_cases')
    big = max(members, key=lambda c: (len(c.intent) if c.extent else -1))
    STATE['prefix_only'] = True
    try:
        for take in (1, 40, 420):
            g = call(big.attributes)
            if g is RAISED:
                return
            for _ in range(take):
                if next(g, None) is None:
                    break
            del g
        call(big.minimal)
    finally:
        STATE['prefix_only'] = False


def run_bigintent(concepts, case, spec):
    ctx = common.build_or_skip(concepts, case)
    if ctx is None:
        return
    sh = attach.shadow_of(ctx)
    lat = common.get_lattice(ctx)
    if lat is RAISED:
        return
    members = list(lat)
    COL.count('bigintent_cases')
    big = max(members, key=lambda c: (len(c.intent) if c.extent else -1))
    others = [c for c in members if c is not big and c.extent and 3 <= len(c.intent) <= 12][:4]
    STATE['bound'] = 20
    try:
        it1 = call(big.attributes)
        if it1 is RAISED:
            return
        with core.monitor_code():
            e, i = sh.omask(big.extent), sh.pmask(big.intent)
            total = len(generators(sh, e, i))
        for _ in range(int(total * .8)):        # suspend the big enumeration far in (most subsets visited)
            if next(it1, None) is None:
                break
        for c in others:                        # other enumerations on the same context meanwhile
            call(c.minimal)
            g = call(c.attributes)
            if g is not RAISED:
                call(list, g)
        call(big.minimal)
        call(list, it1)                         # judged at exhaustion against brute force
        g = call(big.attributes)                # and once more, sequentially
        if g is not RAISED:
            call(list, g)
    finally:
        STATE['bound'] = None


STATE = {'bound': None, 'prefix_only': False, 'stream': False}


def cases(tier, seed, spec):
    yield from fullintent_cases(tier)
    yield from wideintent_cases(tier)
    yield from bigintent_cases(tier)
    bound = MAX_INTENT[tier]
    for c in gen.ctx_stream(tier, seed, with_wide=False, max_rnd=(8, 8) if tier == 'quick' else (12, 12)):
        if len(c['properties']) <= bound:
            yield c


def run_case(concepts, case, spec):
    if case.get('fullintent'):
        return run_fullintent(concepts, case, spec)
    if case.get('wideintent'):
        return run_wideintent(concepts, case, spec)
    if case.get('bigintent'):
        return run_bigintent(concepts, case, spec)
    rng = common.rng_for(case, spec)
    ctx = common.build_or_skip(concepts, case)
    if ctx is None:
        return
    sh = attach.shadow_of(ctx)
    sl = sh.lattice(CAP[spec['tier']])
    lat = common.get_lattice(ctx)
    if lat is RAISED:
        COL.count('lattice_construction_raised')
        return
    members = list(lat)
    COL.sample({'table': case, 'n_concepts': sl.n})
    which = members if len(members) <= 60 else rng.sample(members, 60)
    if members[0] not in which:
        which = [members[0]] + list(which)
    # first thing on a fresh lattice (a lazily filled cache would still be empty here):
    # two enumerations of the same concept alive at once, and minimal() in between
    for _ in range(4):
        c = rng.choice(which)
        it1 = call(c.attributes)
        if it1 is RAISED:
            continue
        for _ in range(rng.randint(0, 2)):
            next(it1, None)
        call(c.minimal)
        it2 = call(c.attributes)
        if it2 is not RAISED:
            call(list, it2)
        call(list, it1)
        call(c.minimal)
        COL.count('interleaved_enumerations')
    for c in which:
        g = call(c.attributes)
        if g is not RAISED:
            call(list, g)
        call(c.minimal)
    if len(ctx.objects) <= 12 and len(ctx.properties) <= 12 and sl.n <= 200:
        common.interference(concepts, ctx, lat, rng, 15)
        for c in list(which)[:8]:
            g = call(c.attributes)
            if g is not RAISED:
                call(list, g)
            call(c.minimal)
        COL.count('asked_again_after_interference')
    old = POOL.older(rng)
    if old is not None:
        c = rng.choice(old)
        g = call(c.attributes)
        if g is not RAISED:
            call(list, g)
        call(c.minimal)
        COL.count('session_requeries')
    POOL.add(list(which)[:8])
    for _ in range(2):
        c = rng.choice(members)
        g = call(c.attributes)
        if g is not RAISED:
            for _ in range(rng.randint(0, 2)):
                next(g, None)
            del g
