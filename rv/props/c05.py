"""C05 - neighbor links are exactly the covering relation (Hasse diagram)."""

import pickle

from .. import attach, gen, core
from ..attach import Monitor
from ..core import COL
from . import common
from .common import call, RAISED

CAP = {'quick': 1500, 'thorough': 3000}

META = {
    'rule': ('cases: the standard context stream; every lattice is judged when it is constructed '
             '(Lattice.__init__ hook), when it is loaded (Lattice._fromlist hook via '
             'fromdict(todict())), after unpickling and again at the driver\'s quiescent point. '
             'Invariant: for every member, set(upper_neighbors)/set(lower_neighbors) (by identity, '
             'no repeats) equal the covers computed by definition on the shadow concept list, and '
             'the two link sets are converse. Call monitor: Context.neighbors(objects[, raw]) on '
             'all/sampled object subsets returns exactly the upper covers of the generated concept. '
             'distinct_nontrivial = distinct tables whose lattice has a concept with >= 2 upper '
             'and >= 2 lower covers.'),
    'evaluation_counters': ['judged_structure', 'judged_neighbors_call'],
    'required_counters': ['judged_structure', 'judged_neighbors_call', 
                          'judged_structure_unpickled',
                          'judged_neighbors_raw', 'members_checked'],
    'shards': {'quick': 16, 'thorough': 16},
    'exhaustive': {'quick': 'all 682 boolean tables <= 3x3 x all object subsets for neighbors()',
                   'thorough': 'all boolean tables <= 3x3, 3x4, 4x3, 4x4 x all object subsets'},
    'assumptions': ['order inside the neighbor tuples and order of neighbors() output are not judged here (C06)'],
}
META['rule'] += (' BIGLAT: additionally the Boolean lattice of 16 384 concepts (contranominal scale 14) in the quick '
                 'tier and those of 32 768 and 65 536 concepts in the thorough tier.')


def judge_structure(lat, cap, origin):
    view = common.view_of(lat, cap)
    sl = view.sl
    COL.count('judged_structure')
    COL.count('judged_structure_' + origin)
    if None in view.sidx or len(set(view.sidx)) != len(view.sidx) or len(view.sidx) != sl.n:
        COL.count('lattice_is_not_the_concept_set_skipped')     # C03's business
        return
    diamond = False
    for k, c in enumerate(view.members):
        s = view.sidx[k]
        COL.count('members_checked')
        for attr, want in (('upper_neighbors', sl.upper(s)), ('lower_neighbors', sl.lower(s))):
            try:
                nb = tuple(getattr(c, attr))
            except Exception as e:
                COL.violation('structure', f'structure:{attr}-unreadable', None, repr(e))
                continue
            ks = [view.by_id.get(id(d)) for d in nb]
            if None in ks:
                COL.violation('structure', f'structure:{attr}-holds-a-non-member',
                              None, [repr(d) for d in nb], {'concept': repr(c), 'origin': origin})
                continue
            got = [view.sidx[x] for x in ks]
            if len(set(got)) != len(got):
                COL.violation('structure', f'structure:{attr}-has-repeats', sorted(want), got,
                              {'concept': repr(c), 'origin': origin})
            if set(got) != set(want):
                COL.violation('structure', f'structure:{attr}-differs-from-covers',
                              [repr(view.members[view.real_of[w]]) for w in sorted(want)],
                              [repr(d) for d in nb], {'concept': repr(c), 'origin': origin})
            other = 'lower_neighbors' if attr == 'upper_neighbors' else 'upper_neighbors'
            for d in nb:
                try:
                    back = tuple(getattr(d, other))
                except Exception:
                    continue
                if not any(x is c for x in back):
                    COL.violation('structure', 'structure:links-not-converse',
                                  f'{c!r} in {other} of {d!r}', [repr(x) for x in back],
                                  {'origin': origin})
        if len(sl.upper(s)) >= 2 and len(sl.lower(s)) >= 2:
            diamond = True
    if diamond:
        COL.nontrivial(view.sh.key())
        COL.count('lattices_with_diamond')


class InitHook(Monitor):
    def __init__(self, cap):
        self.cap = cap

    def after(self, token, args, kwargs, result):
        if common.get_arg(args, kwargs, 2, 'infimum', ()):
            return
        common.tie(args[0], common.get_arg(args, kwargs, 1, 'context'))
        if common.DEFER[0]:     # the driver reads this lattice first (in its own order, possibly cut short)
            COL.count('construction_hook_deferred_to_the_driver')
            return
        judge_structure(args[0], self.cap, 'init')


class FromlistHook(Monitor):
    def __init__(self, cap):
        self.cap = cap

    def after(self, token, args, kwargs, result):
        # classmethod: args = (cls, context, stored_list, unordered)
        ctx = common.get_arg(args, kwargs, 1, 'context')
        if not common.stored_list_in_scope(ctx, common.get_arg(args, kwargs, 2, 'lattice'),
                                           common.get_arg(args, kwargs, 3, 'unordered', False), self.cap):
            COL.count('out_of_scope_unordered_list_without_raw')
            return
        common.tie(result, ctx)
        judge_structure(result, self.cap, 'fromlist')


class NeighborsMonitor(Monitor):
    def __init__(self, cap):
        self.cap = cap

    def before(self, args, kwargs):
        labels, a2, k2 = common.read_iterable(args, kwargs, 1, 'objects')
        if labels is None:
            return None
        return attach.Args((args[0], labels, bool(common.get_arg(args, kwargs, 2, 'raw', False))), a2, k2)

    def _scope(self, token):
        ctx, labels, raw = token
        sh = attach.shadow_of(ctx)
        try:
            if not all(l in sh.oidx for l in labels):
                return None
        except TypeError:
            return None
        return sh, sh.omask(labels)

    def after(self, token, args, kwargs, result):
        if token is None:
            return
        sc = self._scope(token)
        if sc is None:
            COL.count('out_of_scope_unknown_label')
            return
        sh, mask = sc
        sl = sh.lattice(self.cap)
        COL.count('judged_neighbors_call')
        e, i = sh.closure_o(mask)
        s = sl.index_of[e]
        want = {(sh.olabels(sl.extents[u]), sh.plabels(sl.intents[u])) for u in sl.upper(s)}
        raw = token[2]
        try:
            if raw:
                COL.count('judged_neighbors_raw')
                got = [(tuple(a.members()), tuple(b.members())) for a, b in result]
            else:
                got = [(tuple(a), tuple(b)) for a, b in result]
        except Exception as ex:
            COL.violation('Context.neighbors', 'neighbors:result-not-decodable', sorted(want), repr(ex))
            return
        if len(set(got)) != len(got):
            COL.violation('Context.neighbors', 'neighbors:repeats', sorted(want), got, {'objects': token[1]})
        if set(got) != want:
            COL.violation('Context.neighbors', 'neighbors:differs-from-upper-covers',
                          sorted(want), sorted(got), {'objects': token[1]})

    def raised(self, token, args, kwargs, exc):
        if token is None:
            return
        if self._scope(token) is None:
            COL.count('out_of_scope_unknown_label')
            return
        COL.count('judged_neighbors_call')
        COL.violation('Context.neighbors', f'neighbors:raised-{type(exc).__name__}', 'a list', repr(exc),
                      {'objects': token[1]})


def setup(concepts, spec):
    from .. import probes
    probes.install(['lindig'])
    cap = CAP[spec['tier']]
    attach.attach_ctor(concepts)
    attach.attach(concepts.Context, 'neighbors', NeighborsMonitor(cap))
    for owner, name, mon in [(concepts.lattices.Lattice, '__init__', InitHook(cap)),
                             (concepts.lattices.Lattice, '_fromlist', FromlistHook(cap))]:
        try:
            attach.attach(owner, name, mon)
        except (KeyError, core.HarnessError):
            COL.count(f'hook_unavailable_{name}')
    global POOL
    POOL = common.Pool(5)


def cases(tier, seed, spec):
    # > 10 000 objects with a tiny lattice: only a handful of neighbors() calls are affordable
    yield from (dict(c, few_calls=True) for c in gen.huge(seed, 8 if tier == 'quick' else 32)
                if c['fam'].endswith('tall') and len(c['objects']) > 10000)
    yield from gen.biglat(tier, quick_sizes=(14,))
    yield from gen.ctx_stream(tier, seed)


def run_case(concepts, case, spec):
    rng = common.rng_for(case, spec)
    ctx = common.build_or_skip(concepts, case)
    if ctx is None:
        return
    sh = attach.shadow_of(ctx)
    if case['fam'].startswith('BIGLAT'):
        sh.cap_override = 70000
        COL.count('biglat_cases')
    cap = CAP[spec['tier']]
    sl = sh.lattice(cap)
    lat = common.get_lattice(ctx)
    if lat is RAISED:
        COL.violation('driver', 'construction:raised', f'{sl.n} concepts', 'exception from context.lattice')
        return
    COL.sample({'table': case, 'n_concepts': sl.n,
                'covers': sum(len(sl.upper(k)) for k in range(sl.n))})
    with core.monitor_code():
        judge_structure(lat, cap, 'quiescent')
    if hash(gen.table_key(case)) % 4 == 0:      # a second lattice built on the very same context object
        lat2 = call(concepts.lattices.Lattice, ctx)
        if lat2 is not RAISED:
            with core.monitor_code():
                common.drop_views()
                judge_structure(common.tie(lat2, ctx), cap, 'second_lattice')
                common.drop_views()
            COL.count('second_lattice_on_same_context')
    if case.get('few_calls'):
        COL.count('huge_object_axis_cases')
        objs = list(ctx.objects)
        for sub in ([], [objs[0]], [objs[-1]], rng.sample(objs, 2), [objs[len(objs) // 2]], objs[-3:]):
            call(ctx.neighbors, sub)
        return
    objs_ = list(ctx.objects)
    for _ in range(2):
        sub = rng.sample(objs_, rng.randint(1, min(len(objs_), 4)))
        call(ctx.neighbors, common.reentrant_labels(sub, ctx))     # iterating the argument queries the context
    COL.count('reentrant_argument_collections')
    k = 0
    asked = []
    for sub in gen.subsets_of(ctx.objects, rng, all_below=8, sampled=30):
        k += 1
        if k > ((300 if spec['tier'] == 'thorough' else 120) if sh.n <= 300 else 24):
            break
        if k % 3 == 0:
            call(ctx.neighbors, gen.disguise(sub, rng), True)
        else:
            r = call(ctx.neighbors, list(sub))
            if r is not RAISED and isinstance(r, list) and k % 5 == 0:
                r.clear()               # the caller owns the returned list
                asked.append(list(sub))
    arg = rng.sample(list(ctx.objects), rng.randint(0, min(len(ctx.objects), 3)))
    for _ in range(3):                  # one mutable argument object, edited between calls
        call(ctx.neighbors, arg)
        arg.append(rng.choice(ctx.objects))
        if rng.random() < .5:
            arg.pop(0)
    for sub in asked[:12]:              # the same questions again, later, in another order
        call(ctx.neighbors, tuple(reversed(sub)))
    if len(ctx.objects) <= 12 and len(ctx.properties) <= 12 and sl.n <= 200:
        common.interference(concepts, ctx, lat, rng, 15)
        for sub in asked[:6] + [[]]:
            call(ctx.neighbors, list(sub))
        with core.monitor_code():
            common.drop_views()
            judge_structure(lat, cap, 'after_interference')
        COL.count('asked_again_after_interference')
    old = POOL.older(rng)
    if old is not None:
        octx = old
        call(octx.neighbors, rng.sample(list(octx.objects), rng.randint(0, len(octx.objects))))
        call(octx.neighbors, [])
        COL.count('session_requeries')
    POOL.add(ctx)
    if spec.get('replay') is not None or hash(gen.table_key(case)) % 3 == 0:
        d = call(ctx.todict)
        if d is not RAISED:
            c2 = call(concepts.Context.fromdict, d)
            if c2 is not RAISED and 'lattice' in vars(c2):
                with core.monitor_code():
                    judge_structure(common.tie(c2.lattice, c2), cap, 'loaded')
            c3 = call(concepts.Context.fromdict, d, raw=True)
            if c3 is not RAISED and 'lattice' in vars(c3):
                with core.monitor_code():
                    judge_structure(common.tie(c3.lattice, c3), cap, 'loaded_raw')
        if sl.n <= 250:
            try:
                ctx2, lat2 = pickle.loads(pickle.dumps((ctx, lat)))
            except Exception:
                COL.count('pickle_failed_not_judged_here')
            else:
                common.tie(lat2, ctx2)
                with core.monitor_code():
                    judge_structure(lat2, cap, 'unpickled')
