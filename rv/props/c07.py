"""C07 - join and meet are the least upper and greatest lower bounds."""

from .. import attach, gen, core
from ..attach import Monitor
from ..core import COL
from ..shadow import popcount
from . import common
from .common import call, RAISED

CAP = {'quick': 600, 'thorough': 1500}

META = {
    'rule': ('cases: the standard context stream and one Boolean lattice of 16 384 concepts (thorough: 32 768; bounds by scanning for the upper/lower bounds). Per lattice: all ordered pairs (<= 40 concepts; '
             '400 sampled pairs beyond) through Concept.join/meet and the | and & operators, and '
             'sampled multisets of size 0-6 (repeats, comparable members; list and generator '
             'form) through Lattice.join/meet. Oracle: the result *is* the member that the shadow '
             'finds by definition - among the members above (below) all arguments the unique one '
             'below (above) all the others - cross-checked with closure-of-union / intersection; '
             'empty join = first member, empty meet = last. Trace laws over the logged results: '
             'commutative, idempotent, absorption, x<=y iff x|y is y iff x&y is x, associativity on '
             'sampled triples. distinct_nontrivial = distinct (table, op, argument multiset) whose '
             'arguments are pairwise incomparable or whose join extent strictly contains the union.'),
    'evaluation_counters': ['judged_concept_join', 'judged_concept_meet', 'judged_lattice_join',
                            'judged_lattice_meet'],
    'required_counters': ['judged_concept_join', 'judged_concept_meet', 'judged_lattice_join',
                          'judged_lattice_meet', 'judged_empty_join', 'judged_empty_meet',
                          'trace_laws_checked', 'join_adds_objects', 'judged_orphaned_concepts'],
    'shards': {'quick': 16, 'thorough': 16},
    'exhaustive': {'quick': 'all tables <= 3x3 x all ordered pairs of concepts',
                   'thorough': 'all tables <= 3x3, 3x4, 4x3, 4x4 x all ordered pairs'},
    'assumptions': ['arguments that are not members of the receiving lattice are out of scope'],
}

LOG = {}      # id(lattice) -> {('j'|'m', a, b): result index}


def _judge(view, op, idxs, result, where, argdesc):
    sl = view.sl
    sidx = [view.sidx[k] for k in idxs]
    if None in sidx:
        COL.count('argument_is_not_a_concept_skipped')
        return
    want = sl.join(sidx) if op == 'j' else sl.meet(sidx)
    if want is None:
        raise core.HarnessError('shadow found no unique bound')
    # cross-check the shadow with the closure formulas
    if op == 'j':
        u = 0
        for s in sidx:
            u |= sl.extents[s]
        alt = sl.index_of[view.sh.closure_o(u)[0]]
    else:
        u = view.sh.ALLO
        for s in sidx:
            u &= sl.extents[s]
        alt = sl.index_of.get(u)
    if alt != want:
        raise core.HarnessError(f'shadow bound by definition {want} != by formula {alt}')
    k = view.real_of.get(want)
    if k is None:
        COL.count('member_missing_skipped')
        return
    if result is not view.members[k]:
        COL.violation(where, f'{where}:result-is-not-the-{"least-upper" if op == "j" else "greatest-lower"}-bound',
                      repr(view.members[k]), repr(result), {'arguments': argdesc})
    # non-triviality
    incomparable = all(not sl.leq(a, b) and not sl.leq(b, a)
                       for x, a in enumerate(sidx) for b in sidx[x + 1:]) and len(sidx) >= 2
    adds = op == 'j' and popcount(sl.extents[want]) > popcount(u)
    if adds:
        COL.count('join_adds_objects')
    if incomparable or adds:
        COL.nontrivial(view.sh.key(), op, tuple(sorted(sidx)))
    return k


class ConceptOp(Monitor):
    def __init__(self, op, cap):
        self.op, self.cap = op, cap

    def _scope(self, args, kwargs):
        a = args[0]
        b = common.get_arg(args, kwargs, 1, 'other')
        lat = getattr(a, 'lattice', None)
        if lat is None or getattr(b, 'lattice', None) is not lat:
            return None
        view = common.view_of(lat, self.cap)
        ka, kb = view.by_id.get(id(a)), view.by_id.get(id(b))
        if ka is None or kb is None:
            return None
        return view, ka, kb

    def after(self, token, args, kwargs, result):
        sc = self._scope(args, kwargs)
        if sc is None:
            COL.count('out_of_scope_foreign_concept')
            return
        view, ka, kb = sc
        name = 'concept_join' if self.op == 'j' else 'concept_meet'
        COL.count('judged_' + name)
        k = _judge(view, self.op, [ka, kb], result, name, [repr(args[0]), repr(args[1]) if len(args) > 1 else None])
        if k is not None:
            log = LOG.setdefault(id(view.lattice), {})
            if len(log) < 4000:
                log[(self.op, ka, kb)] = k

    def raised(self, token, args, kwargs, exc):
        sc = self._scope(args, kwargs)
        if sc is None:
            COL.count('out_of_scope_foreign_concept')
            return
        name = 'concept_join' if self.op == 'j' else 'concept_meet'
        COL.count('judged_' + name)
        COL.violation(name, f'{name}:raised-{type(exc).__name__}', 'a member', repr(exc),
                      {'arguments': [repr(args[0]), repr(args[1]) if len(args) > 1 else None]})


class LatticeOp(Monitor):
    def __init__(self, op, cap):
        self.op, self.cap = op, cap

    def before(self, args, kwargs):
        items, a2, k2 = common.read_iterable(args, kwargs, 1, 'concepts')
        if items is None:
            return None
        return attach.Args((args[0], items), a2, k2)

    def _scope(self, token):
        lat, items = token
        view = common.view_of(lat, self.cap)
        ks = [view.by_id.get(id(c)) for c in items]
        if None in ks:
            return None
        return view, ks

    def after(self, token, args, kwargs, result):
        if token is None:
            return
        sc = self._scope(token)
        if sc is None:
            COL.count('out_of_scope_foreign_concept')
            return
        view, ks = sc
        name = 'lattice_join' if self.op == 'j' else 'lattice_meet'
        COL.count('judged_' + name)
        COL.event(name, ks[:8])
        if not ks:
            COL.count('judged_empty_join' if self.op == 'j' else 'judged_empty_meet')
            want = view.members[0] if self.op == 'j' else view.members[-1]
            if result is not want:
                COL.violation(name, f'{name}:empty-argument-not-{"first" if self.op == "j" else "last"}-member',
                              repr(want), repr(result))
        _judge(view, self.op, ks, result, name, [repr(c) for c in token[1]][:8])

    def raised(self, token, args, kwargs, exc):
        if token is None:
            return
        if self._scope(token) is None:
            COL.count('out_of_scope_foreign_concept')
            return
        name = 'lattice_join' if self.op == 'j' else 'lattice_meet'
        COL.count('judged_' + name)
        COL.violation(name, f'{name}:raised-{type(exc).__name__}', 'a member', repr(exc),
                      {'arguments': [repr(c) for c in token[1]][:8]})


def flush_laws(view):
    log = LOG.pop(id(view.lattice), None)
    if not log:
        return
    sl = view.sl
    n = 0
    for (op, a, b), r in log.items():
        n += 1
        rb = log.get((op, b, a))
        if rb is not None and rb != r:
            COL.violation('trace', 'law:not-commutative', r, rb, {'op': op, 'a': a, 'b': b})
        if a == b and r != a:
            COL.violation('trace', 'law:not-idempotent', a, r, {'op': op})
        # absorption: a | (a & b) is a ; a & (a | b) is a
        other = 'm' if op == 'j' else 'j'
        inner = log.get((other, a, b))
        if inner is not None:
            outer = log.get((op, a, inner))
            if outer is not None and outer != a:
                COL.violation('trace', 'law:absorption-fails', a, outer, {'op': op, 'a': a, 'b': b})
        # x <= y iff x | y is y iff x & y is x
        sa, sb = view.sidx[a], view.sidx[b]
        if sa is not None and sb is not None:
            le = sl.leq(sa, sb)
            if op == 'j' and (r == b) != le:
                COL.violation('trace', 'law:order-vs-join', le, r == b, {'a': a, 'b': b})
            if op == 'm' and (r == a) != le:
                COL.violation('trace', 'law:order-vs-meet', le, r == a, {'a': a, 'b': b})
    # associativity on triples present in the log
    keys = list(log)[:300]
    for (op, a, b) in keys:
        ab = log[(op, a, b)]
        for c in range(min(len(view.members), 12)):
            bc = log.get((op, b, c))
            if bc is None:
                continue
            l, r = log.get((op, ab, c)), log.get((op, a, bc))
            if l is not None and r is not None:
                n += 1
                if l != r:
                    COL.violation('trace', 'law:not-associative', l, r, {'op': op, 'a': a, 'b': b, 'c': c})
    COL.count('trace_laws_checked', n)


def setup(concepts, spec):
    cap = CAP[spec['tier']]
    attach.attach_ctor(concepts)
    lm = concepts.lattice_members.Concept
    attach.attach(lm, 'join', ConceptOp('j', cap))      # also replaces __or__
    attach.attach(lm, 'meet', ConceptOp('m', cap))      # also replaces __and__
    common.attach_overrides(concepts, lm, ['join', '__or__'], lambda: ConceptOp('j', cap))
    common.attach_overrides(concepts, lm, ['meet', '__and__'], lambda: ConceptOp('m', cap))
    la = concepts.lattices.Lattice
    attach.attach(la, 'join', LatticeOp('j', cap))
    attach.attach(la, 'meet', LatticeOp('m', cap))
    hits = attach.bindings()
    if not any('__or__' in h for h in hits.get('TransformableMixin.join', [])):
        COL.count('alias___or___not_found')
    global POOL
    POOL = common.Pool(4)


def cases(tier, seed, spec):
    yield from gen.biglat(tier, sizes=(15, 17), quick_sizes=(14,))
    # more than 2**15 objects or properties, a few dozen concepts (Lindig needs about a minute per tall case)
    yield from gen.giant(seed, 1, only='wide')
    if tier == 'thorough':
        yield from gen.giant(seed, 3, only='tall')
        yield from gen.giant(seed + 1, 3, only='wide')
    yield from gen.ctx_stream(tier, seed)


ORPHANS = []


def run_case(concepts, case, spec):
    rng = common.rng_for(case, spec)
    ctx = common.build_or_skip(concepts, case)
    if ctx is None:
        return
    sh = attach.shadow_of(ctx)
    cap = CAP[spec['tier']]
    if case['fam'].startswith('BIGLAT'):
        sh.cap_override = 140000
        COL.count('biglat_cases')
    sl = sh.lattice(cap)
    lat = common.get_lattice(ctx)
    if lat is RAISED:
        COL.count('lattice_construction_raised')
        return
    members = list(lat)
    n = len(members)
    COL.sample({'table': case, 'n_concepts': sl.n, 'calls': 'all/sampled pairs x {join, meet, |, &}, multisets via Lattice.join/meet'})
    thorough = spec['tier'] == 'thorough'
    if n <= (60 if thorough else 40):
        pairs = [(a, b) for a in range(n) for b in range(n)]
    else:
        pairs = [(rng.randrange(n), rng.randrange(n)) for _ in range(600 if thorough else 400)]
        # pairs whose indexes differ by a power of two in one position and by one in the other: what a
        # pair of indexes packed into one machine word (i << k | j) cannot tell apart
        for width in (8, 16):
            if n > (1 << width) + 4:
                for _ in range(40 if width == 8 else 150):
                    i = rng.randrange(n - 2)
                    r = rng.randrange(n - (1 << width) - 1)
                    quad = [(i, r + (1 << width)), (i + 1, r), (i, r), (i + 1, r + (1 << width))]
                    pairs += quad + [(b, a) for a, b in quad]
                COL.count('index_straddling_pair_families_width_%d' % width)
    for x, (a, b) in enumerate(pairs):
        ca, cb = members[a], members[b]
        if x % 2:
            call(lambda: ca | cb)
            call(lambda: ca & cb)
        else:
            call(ca.join, cb)
            call(ca.meet, cb)
    # feed results back for absorption / associativity
    with core.monitor_code():
        view = common.view_of(lat, cap)
        log = dict(LOG.get(id(lat), {}))
    for (op, a, b), r in list(log.items())[:150]:
        ca, cr = members[a], members[r]
        call(lambda: ca | cr) if op == 'm' else call(lambda: ca & cr)
        c = members[rng.randrange(n)]
        call(lambda: cr | c) if op == 'j' else call(lambda: cr & c)
    for _ in range(120 if thorough else 50):
        size = rng.choice([0, 1, 2, 2, 3, 3, 4, 5, 6])
        ms = [members[rng.randrange(n)] for _ in range(size)]
        if ms and rng.random() < .4:
            ms.append(rng.choice(ms))                      # repeat
        if ms and rng.random() < .4:
            up = list(ms[0].upper_neighbors)
            if up:
                ms.append(rng.choice(up))                  # comparable member
        arg = ms if rng.random() < .5 else (c for c in list(ms))
        call(lat.join, arg)
        arg = ms if rng.random() < .5 else iter(list(ms))
        call(lat.meet, arg)
    # one collection object handed to several calls (the driver never edits it): sets, frozensets,
    # dict views, deques; with and without the bottom / the top among the members
    import collections as _c
    for t in range(10 if thorough else 6):
        ms = [members[rng.randrange(n)] for _ in range(rng.randint(1, 5))]
        if t % 2 == 0:
            ms += [members[0], members[-1]][:1 + t % 3]
        if t % 3 == 1:
            ms.append(members[-1])
        coll = [set, frozenset, lambda x: dict.fromkeys(x).keys(), _c.deque, list, lambda x: dict.fromkeys(x)][t % 6](ms)
        common.declare(coll)
        call(lat.join, coll)
        call(lat.meet, coll)
        call(lat.join, coll)
        call(lat.meet, coll)
        common.undeclare(coll)
    COL.count('one_collection_object_for_several_calls')
    # other look-ups on the same lattice in between (shared memo tables), one mutable argument list
    props = list(ctx.properties)
    objs = list(ctx.objects)
    arg = []
    for _ in range(12 if thorough else 8):
        call(lat, rng.sample(props, rng.randint(0, min(len(props), 3))))
        call(lat.__getitem__, tuple(rng.sample(objs, rng.randint(1, min(len(objs), 3)))))
        a, b = members[rng.randrange(n)], members[rng.randrange(n)]
        call(lambda: a | b)
        call(lambda: a & b)
        arg.append(rng.choice(members))
        call(lat.join, arg)
        call(lat.meet, arg)
        if len(arg) > 2:
            arg.pop(0)
    COL.count('interleaved_lookups')
    # collections whose iteration itself calls join/meet/traversals on the same lattice
    # (lattice.join(lattice.join(g) for g in groups) made re-iterable)
    for _ in range(4):
        ms = [members[rng.randrange(n)] for _ in range(rng.randint(1, 4))]
        call(lat.join, common.reentrant_concepts(ms, lat))
        call(lat.meet, common.reentrant_concepts(ms + ms[:1], lat))
    COL.count('reentrant_argument_collections')
    # the lattice itself is an Iterable[Concept]; so are its slices and its atoms tuple
    call(lat.join, lat)
    call(lat.meet, lat)
    call(lat.join, lat[:3])
    call(lat.meet, lat[-3:])
    call(lat.join, lat.atoms)
    call(lat.meet, lat.atoms)
    COL.count('lattice_object_as_argument')
    if len(ctx.objects) <= 12 and len(ctx.properties) <= 12 and n <= 200:
        common.interference(concepts, ctx, lat, rng, 15)
        for _ in range(12):
            a, b = members[rng.randrange(n)], members[rng.randrange(n)]
            call(lambda: a | b)
            call(lambda: a & b)
            call(lat.join, [a, b])
            call(lat.meet, (b, a))
        COL.count('asked_again_after_interference')
    call(lat.join, [])
    call(lat.meet, ())
    # concepts that outlive every other reference to their lattice and context
    if sl.n <= 40 and len(ORPHANS) < 8:
        c2 = common.build_or_skip(concepts, case)
        l2 = common.get_lattice(c2) if c2 is not None else RAISED
        if l2 is not RAISED:
            ms = list(l2)
            exp = []
            for _ in range(6):
                a, b = rng.randrange(len(ms)), rng.randrange(len(ms))
                exp.append((a, b, sl.join([a, b]), sl.meet([a, b])))
            if len(ms) == sl.n:
                ORPHANS.append((ms, exp))
        del c2, l2
    elif len(ORPHANS) >= 8:
        import gc
        common.drop_views()
        gc.collect()
        for ms, exp in ORPHANS:
            for a, b, j, m_ in exp:
                x, y = ms[a], ms[b]
                gj, gm = call(lambda: x | y), call(lambda: x & y)
                COL.count('judged_orphaned_concepts')
                if gj is RAISED or gm is RAISED:
                    COL.violation('concept_join', 'concept_join:raised-on-concepts-that-outlived-their-lattice',
                                  'a member', 'exception')
                elif gj is not ms[j] or gm is not ms[m_]:
                    COL.violation('concept_join', 'concept_join:wrong-on-concepts-that-outlived-their-lattice',
                                  [repr(ms[j]), repr(ms[m_])], [repr(gj), repr(gm)])
        ORPHANS.clear()
    old = POOL.older(rng)
    if old is not None:
        olat, omem = old
        a, b = rng.choice(omem), rng.choice(omem)
        call(lambda: a | b)
        call(olat.meet, [a, b])
        # foreign concept: out of scope, must not be judged
        call(lambda: a | members[0])
        COL.count('session_requeries')
    POOL.add((lat, members))
    with core.monitor_code():
        flush_laws(view)
        LOG.clear()
