"""C06 - canonical order: shortlex iteration, index/dindex ranks, bottom first, top last."""

import pickle

from .. import attach, gen, core
from ..attach import Monitor
from ..core import COL
from ..shadow import shortlex_key, longlex_key
from . import common
from .common import call, RAISED

CAP = {'quick': 1500, 'thorough': 3000}

META = {
    'rule': ('cases: the standard context stream (object labels never in positional order); every '
             'lattice is judged at construction (Lattice.__init__ hook), after loading '
             '(Lattice._fromlist hook, ordered and raw=True with a permuted stored list), after '
             'unpickling, and re-judged at quiescent points of a session in which older lattices '
             'stay alive and are queried again. Invariant: iteration keys strictly increasing in '
             'shortlex by object position; index = position; dindex = longlex rank; infimum is '
             'first and below all, supremum is last and above all; atoms are the infimum\'s upper '
             'neighbors = the shadow atoms; each upper_neighbors tuple sorted shortlex, each '
             'lower_neighbors tuple sorted longlex. distinct_nontrivial = distinct tables with two '
             'concepts of equal extent size and a concept whose neighbors differ in size.'),
    'evaluation_counters': ['judged_order'],
    'required_counters': ['judged_order', 
                          'judged_order_loaded_raw', 'judged_order_unpickled',
                          'judged_order_session_recheck', 'ties_broken_by_position'],
    'shards': {'quick': 16, 'thorough': 16},
    'exhaustive': {'quick': 'all 682 boolean tables <= 3x3',
                   'thorough': 'all boolean tables <= 3x3, 3x4, 4x3, 4x4'},
    'assumptions': ['member extents are read through Concept.extent and mapped to positions by the shadow'],
}
META['rule'] += (' BIGLAT: additionally the Boolean lattice of 16 384 concepts (contranominal scale 14) in the quick '
                 'tier and those of 32 768 and 65 536 concepts in the thorough tier.')


def judge_order(lat, cap, origin):
    view = common.view_of(lat, cap)
    sl, sh = view.sl, view.sh
    COL.count('judged_order')
    COL.count('judged_order_' + origin)
    if view.bad_labels or None in view.masks:
        COL.count('lattice_with_unknown_labels_skipped')
        return
    keys = [shortlex_key(m[0]) for m in view.masks]
    for a, b in zip(keys, keys[1:]):
        if not a < b:
            COL.violation('order', 'order:iteration-not-strictly-shortlex',
                          'strictly increasing (size, positions)', [list(a), list(b)], {'origin': origin})
            break
    members = view.members
    n = len(members)
    if origin != 'quiescent':
        common.previsit(members, view.sh, ('upper_neighbors', 'lower_neighbors', 'index', 'dindex'))
    dorder = sorted(range(n), key=lambda k: longlex_key(view.masks[k][0]))
    drank = {k: r for r, k in enumerate(dorder)}
    for k, c in enumerate(members):
        try:
            if c.index != k:
                COL.violation('order', 'order:index-is-not-position', k, c.index,
                              {'concept': repr(c), 'origin': origin})
            if c.dindex != drank[k]:
                COL.violation('order', 'order:dindex-is-not-longlex-rank', drank[k], c.dindex,
                              {'concept': repr(c), 'origin': origin})
        except AttributeError as e:
            COL.violation('order', 'order:index-or-dindex-missing', None, repr(e), {'origin': origin})
        for attr, keyf in (('upper_neighbors', shortlex_key), ('lower_neighbors', longlex_key)):
            nb = getattr(c, attr)
            ks = [view.by_id.get(id(d)) for d in nb]
            if None in ks:
                continue     # C05's business
            nkeys = [keyf(view.masks[x][0]) for x in ks]
            if nkeys != sorted(nkeys):
                COL.violation('order', f'order:{attr}-not-sorted',
                              'shortlex' if attr == 'upper_neighbors' else 'longlex',
                              [repr(d) for d in nb], {'concept': repr(c), 'origin': origin})
    if not members:
        COL.violation('order', 'order:empty-lattice', '>= 1 concept', 0)
        return
    try:
        inf, sup, atoms = lat.infimum, lat.supremum, tuple(lat.atoms)
    except Exception as e:
        COL.violation('order', 'order:infimum-supremum-atoms-unreadable', None, repr(e))
        return
    if inf is not members[0]:
        COL.violation('order', 'order:infimum-is-not-first', repr(members[0]), repr(inf), {'origin': origin})
    if sup is not members[-1]:
        COL.violation('order', 'order:supremum-is-not-last', repr(members[-1]), repr(sup), {'origin': origin})
    ie, se = view.masks[view.by_id.get(id(inf), 0)][0], view.masks[view.by_id.get(id(sup), n - 1)][0]
    for m in view.masks:
        if ie & m[0] != ie:
            COL.violation('order', 'order:infimum-not-below-all', None, repr(inf), {'origin': origin})
            break
        if m[0] & se != m[0]:
            COL.violation('order', 'order:supremum-not-above-all', None, repr(sup), {'origin': origin})
            break
    if len(atoms) != len(inf.upper_neighbors) or any(a is not b for a, b in zip(atoms, inf.upper_neighbors)):
        COL.violation('order', 'order:atoms-are-not-infimum-upper-neighbors',
                      [repr(a) for a in inf.upper_neighbors], [repr(a) for a in atoms], {'origin': origin})
    if view.faithful():
        want_atoms = set(sl.atoms())
        got_atoms = {view.sidx[view.by_id[id(a)]] for a in atoms if id(a) in view.by_id}
        if want_atoms != got_atoms:
            COL.violation('order', 'order:atoms-differ-from-covers-of-bottom',
                          sorted(want_atoms), sorted(got_atoms), {'origin': origin})
    # evidence + non-triviality
    sizes = [k[0] for k in keys]
    tie = len(set(sizes)) < len(sizes)
    if tie:
        COL.count('ties_broken_by_position')
    mixed = False
    for c in members:
        for attr in ('upper_neighbors', 'lower_neighbors'):
            szs = {len(d.extent) for d in getattr(c, attr)}
            if len(szs) > 1:
                mixed = True
    if tie and mixed:
        COL.nontrivial(sh.key())


class InitHook(Monitor):
    def __init__(self, cap):
        self.cap = cap

    def after(self, token, args, kwargs, result):
        if common.get_arg(args, kwargs, 2, 'infimum', ()):
            return
        common.tie(args[0], common.get_arg(args, kwargs, 1, 'context'))
        if common.DEFER[0]:     # the driver reads this lattice first (in its own order, possibly cut short)
            COL.count('construction_hook_deferred_to_the_driver')
            return
        judge_order(args[0], self.cap, 'init')


class FromlistHook(Monitor):
    def __init__(self, cap):
        self.cap = cap

    def after(self, token, args, kwargs, result):
        # classmethod: args = (cls, context, stored_list, unordered)
        ctx = common.get_arg(args, kwargs, 1, 'context')
        if not common.stored_list_in_scope(ctx, common.get_arg(args, kwargs, 2, 'lattice'),
                                           common.get_arg(args, kwargs, 3, 'unordered', False), self.cap):
            COL.count('out_of_scope_unordered_list_without_raw')
            return
        common.tie(result, ctx)
        judge_order(result, self.cap, 'fromlist')


def permuted_dict(d, rng):
    """The same serialized context with the stored sequences in another order."""
    lat = list(d['lattice'])
    n = len(lat)
    perm = list(range(n))
    rng.shuffle(perm)                   # new position p holds old concept perm[p]
    newpos = {old: new for new, old in enumerate(perm)}

    def shuf(t):
        t = list(t)
        rng.shuffle(t)
        return tuple(t)
    out = []
    for p in range(n):
        ex, in_, up, lo = lat[perm[p]]
        out.append((shuf(ex), shuf(in_), shuf(newpos[u] for u in up), shuf(newpos[l] for l in lo)))
    return {'objects': d['objects'], 'properties': d['properties'],
            'context': [shuf(r) for r in d['context']], 'lattice': out}


def structured_raw_dict(d, rng, how):
    """raw=True inputs that are *not* random shuffles: 'sorted' = canonical concept order with every
    inner index tuple ascending (lower neighbors are canonically longlex, i.e. not ascending),
    'reversed' = every sequence reversed, 'inner' = only the inner tuples shuffled,
    'concepts' = only the concept list shuffled."""
    lat = [tuple(map(tuple, row)) for row in d['lattice']]
    n = len(lat)
    if how == 'sorted':
        out = [tuple(tuple(sorted(t)) for t in row) for row in lat]
        ctx_rows = [tuple(sorted(r)) for r in d['context']]
    elif how == 'reversed':
        newpos = {old: n - 1 - old for old in range(n)}
        out = [(ex[::-1], in_[::-1], tuple(newpos[u] for u in up)[::-1], tuple(newpos[l] for l in lo)[::-1])
               for ex, in_, up, lo in reversed(lat)]
        ctx_rows = [tuple(r)[::-1] for r in d['context']]
    elif how == 'inner':
        def shuf(t):
            t = list(t)
            rng.shuffle(t)
            return tuple(t)
        out = [tuple(shuf(t) for t in row) for row in lat]
        ctx_rows = [shuf(r) for r in d['context']]
    else:
        perm = list(range(n))
        rng.shuffle(perm)
        newpos = {old: new for new, old in enumerate(perm)}
        out = [(lat[perm[p]][0], lat[perm[p]][1], tuple(newpos[u] for u in lat[perm[p]][2]),
                tuple(newpos[l] for l in lat[perm[p]][3])) for p in range(n)]
        ctx_rows = [tuple(r) for r in d['context']]
    return {'objects': d['objects'], 'properties': d['properties'], 'context': ctx_rows, 'lattice': out}


RAW_HOWS = ['sorted', 'reversed', 'inner', 'concepts']


def setup(concepts, spec):
    cap = CAP[spec['tier']]
    attach.attach_ctor(concepts)
    for owner, name, mon in [(concepts.lattices.Lattice, '__init__', InitHook(cap)),
                             (concepts.lattices.Lattice, '_fromlist', FromlistHook(cap))]:
        try:
            attach.attach(owner, name, mon)
        except (KeyError, core.HarnessError):
            COL.count(f'hook_unavailable_{name}')
    global POOL
    POOL = common.Pool(6)


def cases(tier, seed, spec):
    yield from gen.biglat(tier, quick_sizes=(14,))
    yield from gen.ctx_stream(tier, seed)


def run_case(concepts, case, spec):
    rng = common.rng_for(case, spec)
    ctx = common.build_or_skip(concepts, case)
    if ctx is None:
        return
    sh = attach.shadow_of(ctx)
    if case['fam'].startswith('BIGLAT'):
        sh.cap_override = 70000
        COL.count('biglat_cases')
    cap = CAP[spec['tier']]
    sl = sh.lattice(cap)
    lat = common.get_lattice(ctx)
    if lat is RAISED:
        COL.violation('driver', 'construction:raised', f'{sl.n} concepts', 'exception from context.lattice')
        return
    COL.sample({'table': case, 'n_concepts': sl.n,
                'iteration_order': [list(sh.olabels(e)) for e in sl.extents[:12]]})
    with core.monitor_code():
        judge_order(lat, cap, 'quiescent')
    if spec.get('replay') is not None or hash(gen.table_key(case)) % 3 != 1:
        d = call(ctx.todict)
        if d is not RAISED:
            c2 = call(concepts.Context.fromdict, d)
            if c2 is not RAISED and 'lattice' in vars(c2):
                with core.monitor_code():
                    judge_order(common.tie(c2.lattice, c2), cap, 'loaded')
            c3 = call(concepts.Context.fromdict, permuted_dict(d, rng), raw=True)
            if c3 is not RAISED and 'lattice' in vars(c3):
                with core.monitor_code():
                    judge_order(common.tie(c3.lattice, c3), cap, 'loaded_raw')
            how = RAW_HOWS[hash(gen.table_key(case)) % len(RAW_HOWS)]
            if hash(gen.table_key(case)) % 2:        # the same raw documents through JSON text
                import io as _io
                import json as _json
                for doc in (permuted_dict(d, rng), structured_raw_dict(d, rng, 'reversed')):
                    c5 = call(concepts.Context.fromjson, _io.StringIO(_json.dumps(doc)), raw=True)
                    if c5 is not RAISED and 'lattice' in vars(c5):
                        COL.count('raw_documents_through_fromjson')
                        with core.monitor_code():
                            judge_order(common.tie(c5.lattice, c5), cap, 'loaded_raw')
            c4 = call(concepts.Context.fromdict, structured_raw_dict(d, rng, how), raw=True)
            if c4 is not RAISED and 'lattice' in vars(c4):
                COL.count('structured_raw_' + how)
                with core.monitor_code():
                    judge_order(common.tie(c4.lattice, c4), cap, 'loaded_raw')
        if sl.n <= 250:
            try:
                ctx2, lat2 = pickle.loads(pickle.dumps((ctx, lat)))
            except Exception:
                COL.count('pickle_failed_not_judged_here')
            else:
                common.tie(lat2, ctx2)
                with core.monitor_code():
                    judge_order(lat2, cap, 'unpickled')
    if hash(gen.table_key(case)) % 4 == 0:      # a second lattice built on the very same context object
        lat2 = call(concepts.lattices.Lattice, ctx)
        if lat2 is not RAISED:
            with core.monitor_code():
                common.drop_views()
                judge_order(common.tie(lat2, ctx), cap, 'second_lattice')
                common.drop_views()
            COL.count('second_lattice_on_same_context')
    if hash(gen.table_key(case)) % 5 == 1:      # the cached lattice is dropped and computed again
        vars(ctx).pop('lattice', None)
        lat3 = common.get_lattice(ctx)
        if lat3 is not RAISED:
            with core.monitor_code():
                common.drop_views()
                judge_order(lat3, cap, 'recomputed')
                common.drop_views()
            COL.count('lattice_recomputed_after_dropping_the_cache')
    # session: queries on the new lattice, then re-judge an older live lattice
    members = list(lat)
    for _ in range(6):
        a, b = rng.choice(members), rng.choice(members)
        call(lambda: a | b)
        call(lambda: a & b)
        call(list, a.upset())
        call(list, b.downset())
        call(lat.__getitem__, tuple(a.extent))
    if len(ctx.objects) <= 12 and len(ctx.properties) <= 12 and sl.n <= 200:
        common.interference(concepts, ctx, lat, rng, 15)
    old = POOL.older(rng)
    if old is not None:
        with core.monitor_code():
            common.drop_views()
            judge_order(common.tie(*old), cap, 'session_recheck')
    with core.monitor_code():
        common.drop_views()
        judge_order(lat, cap, 'session_recheck')
    POOL.add((lat, ctx))
