"""C12 - text formats round-trip every representable context."""

import ast
import itertools
import os
import random

from .. import attach, core, gen, refio, faults
from ..attach import Monitor
from ..core import COL
from ..shadow import Shadow
from . import common
from .common import call, RAISED

META = {
    'rule': ('cases: tables with 9-11, 99-101, 999-1001, 1023-1025 members on one axis and numbered labels '
             '(counts in headers are read by a digits-only reader), and all tables <= 3x3 (quick: all <= 2x3/3x2 plus a sample of 3x3) incl. all-blank rows/'
             'columns and single row/column, plus random tables up to 6x6, x label alphabets (plain, '
             'ASCII punctuation, the delimiters of the other formats | # , ; " \' ! . X 0 1 tab, digits, '
             'inner whitespace, Latin-1, CJK, combining marks; for csv and python-literal also commas, '
             'quotes, line breaks, leading/trailing blanks) x {string, file} x {utf-8, utf-16, latin-1 '
             'where encodable} x csv dialects {excel, excel-tab, unix} x bools_as_int. Events: every '
             'Context.tostring/fromstring/tofile/fromfile, Definition.tostring/fromfile, '
             'write_concepts_dat/read_concepts_dat/ConceptList.tofile call (Format.load/loads/dump/dumps '
             'and concepts.load* are counted as they are traversed). Oracle, only for labels '
             'representable in the format: (a) round trip through string and file gives an equal '
             'context, load() infers the format from the suffix in any letter case; (b) an independent '
             'reader recovers the same triple from what the library wrote (table, cxt, csv, wiki-table); '
             '(c) text from an independent writer (canonical, right-aligned, padded, with comments) loads '
             'as the same context; (d) FIMI rows = true column indexes, .dat lines = concept members. '
             'distinct_nontrivial = distinct (format, labels, table) where a label contains a delimiter '
             'of some format or the table has an all-blank first/last row or column.'),
    'evaluation_counters': ['judged_tostring', 'judged_fromstring', 'judged_tofile', 'judged_fromfile',
                            'judged_def_tostring', 'judged_def_fromfile', 'judged_write_dat',
                            'judged_read_dat', 'judged_roundtrip'],
    'required_counters': ['judged_tostring', 'judged_fromstring', 'judged_tofile', 'judged_fromfile',
                          'judged_def_tostring', 'judged_def_fromfile', 'judged_write_dat', 'judged_read_dat',
                          'judged_roundtrip', 'independent_writer_texts_loaded', 'suffix_inference_checked',
                          'format_table', 'format_cxt', 'format_csv', 'format_python-literal',
                          'format_wiki-table', 'format_fimi', 'encoding_utf-16', 'encoding_latin-1',
                          'Format.load', 'Format.loads', 'Format.dump', 'Format.dumps',
                          'path_bare_relative', 'path_pathlike', 'path_bytes'],
    'shards': {'quick': 16, 'thorough': 16},
    'exhaustive': {'quick': 'all boolean tables with n*m <= 6 x every label alphabet',
                   'thorough': 'all boolean tables <= 3x3 x every label alphabet'},
    'assumptions': ['labels not representable in a format are out of scope for that format',
                    'csv cells are X/blank or 1/0 as written by the library or by the independent writer'],
}

DELIMS = set('|#,;"\'!.\t') | {'X', '0', '1', '->', '{|', '|}', '|-', '!!', '||'}


def _triple_of_ctx(ctx):
    return list(ctx.objects), list(ctx.properties), [list(map(bool, r)) for r in ctx.bools]


def _norm(t):
    return list(t[0]), list(t[1]), [list(map(bool, r)) for r in t[2]]


def _representable(fmt, objects, properties):
    pred = refio.REPRESENTABLE.get(fmt)
    return pred is not None and all(pred(l) for l in objects) and all(pred(l) for l in properties)


def _read_text_file(path, encoding, fmt):
    newline = '' if fmt in ('csv', 'fimi') else None
    with open(path, encoding=encoding, newline=newline) as f:
        return f.read()


def _judge_written(where, fmt, text, triple, kwargs):
    """(b)/(d): the independent reader recovers ``triple`` from library output."""
    COL.count('format_' + fmt)
    if fmt == 'fimi':
        try:
            got = refio.read_fimi(text)
        except ValueError as e:
            COL.violation(where, f'{where}:fimi-not-parsable', None, repr(e), {'text': text[:200]})
            return
        want = [tuple(j for j, b in enumerate(r) if b) for r in triple[2]]
        if got != want:
            COL.violation(where, f'{where}:fimi-rows-differ-from-true-cells', want, got, {'text': text[:200]})
        return
    reader = refio.reader_for(fmt, **kwargs)
    if reader is None:
        COL.count('out_of_scope_format')
        return
    try:
        got = _norm(reader(text))
    except (refio.Malformed, ValueError, SyntaxError, KeyError, IndexError) as e:
        COL.violation(where, f'{where}:{fmt}-output-not-readable-by-independent-reader', triple,
                      repr(e), {'text': text[:400]})
        return
    if got != _norm(triple):
        COL.violation(where, f'{where}:{fmt}-independent-reader-recovers-another-context',
                      _norm(triple), got, {'text': text[:400]})


def _judge_loaded(where, fmt, text, result_triple, kwargs):
    """(c): what the library loaded equals what the independent reader sees."""
    COL.count('format_' + fmt)
    reader = refio.reader_for(fmt, **kwargs)
    if reader is None:
        COL.count('out_of_scope_format')
        return False
    try:
        want = _norm(reader(text))
    except (refio.Malformed, ValueError, SyntaxError, KeyError, IndexError, TypeError):
        COL.count('out_of_scope_source_not_readable_independently')
        return False
    if not _representable(fmt, want[0], want[1]):
        COL.count('out_of_scope_labels_not_representable')
        return False
    if result_triple is None:
        return True
    if _norm(result_triple) != want:
        COL.violation(where, f'{where}:{fmt}-loaded-context-differs-from-independent-reading',
                      want, _norm(result_triple), {'text': text[:400]})
    return True


def _fmt_kwargs(args, kwargs, pos):
    fmt = common.get_arg(args, kwargs, pos, 'frmat')
    kw = {k: v for k, v in kwargs.items() if k not in ('frmat', 'encoding', 'source', 'filename')}
    return fmt, kw


class ToString(Monitor):
    def __init__(self, kind):
        self.kind = kind        # 'ctx' | 'def'

    def _triple(self, obj):
        if self.kind == 'ctx':
            sh = attach.shadow_of(obj)
            return sh.triple()
        return (tuple(obj.objects), tuple(obj.properties), [tuple(r) for r in obj.bools])

    def after(self, token, args, kwargs, result):
        fmt, kw = _fmt_kwargs(args, kwargs, 1)
        fmt = refio.canonical_format(fmt if fmt is not None else 'table')
        triple = self._triple(args[0])
        name = 'tostring' if self.kind == 'ctx' else 'def_tostring'
        if not triple[0] or not triple[1] or not _representable(fmt, triple[0], triple[1]):
            COL.count('out_of_scope_labels_not_representable')
            return
        COL.count('judged_' + name)
        if not isinstance(result, str):
            COL.violation(name, f'{name}:not-a-string', 'str', repr(result))
            return
        _judge_written(name, fmt, result, triple, kw)

    def raised(self, token, args, kwargs, exc):
        fmt, kw = _fmt_kwargs(args, kwargs, 1)
        fmt = refio.canonical_format(fmt if fmt is not None else 'table')
        triple = self._triple(args[0])
        if fmt not in refio.REPRESENTABLE or not triple[0] or not triple[1] \
                or not _representable(fmt, triple[0], triple[1]):
            COL.count('out_of_scope_labels_not_representable')
            return
        name = 'tostring' if self.kind == 'ctx' else 'def_tostring'
        COL.count('judged_' + name)
        COL.violation(name, f'{name}:{fmt}-raised-{type(exc).__name__}', 'text', repr(exc), {'triple': triple})


class FromString(Monitor):
    def after(self, token, args, kwargs, result):
        source = common.get_arg(args, kwargs, 1, 'source')
        fmt, kw = _fmt_kwargs(args, kwargs, 2)
        fmt = refio.canonical_format(fmt if fmt is not None else 'table')
        if _judge_loaded('fromstring', fmt, source, _triple_of_ctx(result), kw):
            COL.count('judged_fromstring')

    def raised(self, token, args, kwargs, exc):
        source = common.get_arg(args, kwargs, 1, 'source')
        fmt, kw = _fmt_kwargs(args, kwargs, 2)
        fmt = refio.canonical_format(fmt if fmt is not None else 'table')
        if isinstance(source, str) and _judge_loaded('fromstring', fmt, source, None, kw):
            want = _norm(refio.reader_for(fmt, **kw)(source))
            if _valid_context(want):
                COL.count('judged_fromstring')
                COL.violation('fromstring', f'fromstring:{fmt}-raised-{type(exc).__name__}-on-readable-text',
                              want, repr(exc), {'text': source[:400]})


def _valid_context(t):
    o, p, rows = t
    return (o and p and len(set(o)) == len(o) and len(set(p)) == len(p) and not set(o) & set(p)
            and len(rows) == len(o) and all(len(r) == len(p) for r in rows))


class ToFile(Monitor):
    def __init__(self, kind):
        self.kind = kind

    def after(self, token, args, kwargs, result):
        path = common.get_arg(args, kwargs, 1, 'filename')
        fmt = refio.canonical_format(common.get_arg(args, kwargs, 2, 'frmat', 'cxt'))
        enc = common.get_arg(args, kwargs, 3, 'encoding', 'utf-8')
        kw = {k: v for k, v in kwargs.items() if k not in ('frmat', 'encoding', 'filename')}
        sh = attach.shadow_of(args[0])
        triple = sh.triple()
        if not _representable(fmt, triple[0], triple[1]):
            COL.count('out_of_scope_labels_not_representable')
            return
        COL.count('judged_tofile')
        COL.count('encoding_' + str(enc).lower())
        try:
            text = _read_text_file(path, enc or ('ascii' if fmt == 'fimi' else None), fmt)
        except Exception as e:
            COL.violation('tofile', f'tofile:{fmt}-file-not-readable-back', 'a text file', repr(e))
            return
        _judge_written('tofile', fmt, text, triple, kw)

    def raised(self, token, args, kwargs, exc):
        fmt = refio.canonical_format(common.get_arg(args, kwargs, 2, 'frmat', 'cxt'))
        enc = common.get_arg(args, kwargs, 3, 'encoding', 'utf-8')
        sh = attach.shadow_of(args[0])
        if isinstance(exc, (UnicodeEncodeError, LookupError)):
            COL.count('out_of_scope_not_encodable')
            return
        if fmt not in refio.REPRESENTABLE or not _representable(fmt, sh.objects, sh.properties):
            COL.count('out_of_scope_labels_not_representable')
            return
        COL.count('judged_tofile')
        COL.violation('tofile', f'tofile:{fmt}-raised-{type(exc).__name__}', 'a file', repr(exc))


class FromFile(Monitor):
    def __init__(self, kind):
        self.kind = kind

    def _parse(self, args, kwargs):
        path = common.get_arg(args, kwargs, 1, 'filename')
        fmt = common.get_arg(args, kwargs, 2, 'frmat', 'cxt')
        enc = common.get_arg(args, kwargs, 3, 'encoding', None)
        kw = {k: v for k, v in kwargs.items() if k not in ('frmat', 'encoding', 'filename')}
        if fmt is None:
            fmt = refio.SUFFIX.get(os.path.splitext(str(path))[1].lower())
            COL.count('suffix_inference_seen')
        fmt = refio.canonical_format(fmt) if fmt is not None else None
        return path, fmt, enc, kw

    def after(self, token, args, kwargs, result):
        path, fmt, enc, kw = self._parse(args, kwargs)
        name = 'fromfile' if self.kind == 'ctx' else 'def_fromfile'
        if fmt is None:
            COL.violation(name, f'{name}:loaded-a-file-with-unknown-suffix', 'ValueError', repr(result))
            return
        try:
            text = _read_text_file(path, enc, fmt)
        except Exception:
            COL.count('out_of_scope_file_not_readable_independently')
            return
        if self.kind == 'ctx':
            triple = _triple_of_ctx(result)
        else:
            triple = (list(result.objects), list(result.properties), [list(r) for r in result.bools])
        if _judge_loaded(name, fmt, text, triple, kw):
            COL.count('judged_' + name)
            COL.count('encoding_' + str(enc).lower())

    def raised(self, token, args, kwargs, exc):
        path, fmt, enc, kw = self._parse(args, kwargs)
        name = 'fromfile' if self.kind == 'ctx' else 'def_fromfile'
        if fmt is None or refio.reader_for(fmt, **kw) is None:
            COL.count('out_of_scope_format')
            return
        try:
            text = _read_text_file(path, enc, fmt)
        except Exception:
            COL.count('out_of_scope_file_not_readable_independently')
            return
        if _judge_loaded(name, fmt, text, None, kw):
            want = _norm(refio.reader_for(fmt, **kw)(text))
            if self.kind == 'def' or _valid_context(want):
                COL.count('judged_' + name)
                COL.violation(name, f'{name}:{fmt}-raised-{type(exc).__name__}-on-readable-file',
                              want, repr(exc), {'text': text[:300]})


class Counter(Monitor):
    def __init__(self, key):
        self.key = key

    def after(self, token, args, kwargs, result):
        COL.count(self.key)


class WriteDat(Monitor):
    def before(self, args, kwargs):
        items, a2, k2 = common.read_iterable(args, kwargs, 1, 'iterconcepts')
        if items is None:
            return None
        return attach.Args((common.get_arg(args, kwargs, 0, 'path'), items,
                            bool(kwargs.get('extents', False)),
                            kwargs.get('encoding', 'ascii')), a2, k2)

    def after(self, token, args, kwargs, result):
        if token is None:
            return
        path, items, extents, enc = token
        COL.count('judged_write_dat')
        COL.count('format_fimi')
        try:
            want = []
            for ext, int_ in items:
                side = ext if extents else int_
                labels = tuple(side.members())
                universe = list(type(side)._members) if hasattr(type(side), '_members') else None
                # positions through the public label order of the bitset's domain
                dom = {l: i for i, l in enumerate(side.__class__.supremum.members())}
                want.append(tuple(dom[l] for l in labels))
            with open(path, encoding=enc, newline='') as f:
                got = refio.read_fimi(f.read())
        except Exception as e:
            COL.harness_error('WriteDat.decode', e)
            return
        if got != want:
            COL.violation('write_concepts_dat', 'write_dat:lines-differ-from-concept-members', want[:10], got[:10],
                          {'extents': extents})


class ReadDat(Monitor):
    def after(self, token, args, kwargs, result):
        path = common.get_arg(args, kwargs, 0, 'path')
        enc = common.get_arg(args, kwargs, 1, 'encoding', 'ascii')

        def judge(items, complete, exc):
            if not complete or exc is not None:
                COL.count('read_dat_abandoned_or_raised')
                return
            COL.count('judged_read_dat')
            with open(path, encoding=enc, newline='') as f:
                want = refio.read_fimi(f.read())
            if [tuple(x) for x in items] != want:
                COL.violation('read_concepts_dat', 'read_dat:rows-differ-from-file', want[:10],
                              [tuple(x) for x in items][:10])
        return attach.Replace(common.recording(result, judge, 'read_concepts_dat'))


def setup(concepts, spec):
    import csv as _csv
    _csv.register_dialect('Pipes', delimiter='|', quoting=_csv.QUOTE_MINIMAL, lineterminator='\n')
    _csv.register_dialect('GermanExcel', delimiter=';', lineterminator='\r\n')
    _csv.register_dialect('Bare', delimiter=',', quoting=_csv.QUOTE_NONE, lineterminator='\n')
    attach.attach_ctor(concepts)
    C, D = concepts.Context, concepts.Definition
    cx, df, fm = concepts.contexts, concepts.definitions, concepts.formats
    attach.attach(concepts.Context, 'tostring', ToString('ctx'))
    attach.attach(concepts.Context, 'fromstring', FromString())
    attach.attach(concepts.Context, 'tofile', ToFile('ctx'))
    attach.attach(concepts.Context, 'fromfile', FromFile('ctx'))
    attach.attach(concepts.Definition, 'tostring', ToString('def'))
    attach.attach(concepts.Definition, 'fromfile', FromFile('def'))
    for name in ('load', 'loads', 'dump', 'dumps'):
        attach.attach(fm.base.Format, name, Counter('Format.' + name))
    for name in ('load', 'load_csv', 'load_cxt', 'make_context'):
        attach.attach(concepts, name, Counter('concepts.' + name))
    attach.attach(fm.fimi, 'write_concepts_dat', WriteDat())
    attach.attach(fm.fimi, 'read_concepts_dat', ReadDat())


# ---------------------------------------------------------------------------
# label alphabets

ALPHABETS = {
    'plain': (['a', 'b', 'c', 'd', 'e', 'f'], ['p', 'q', 'r', 's', 't', 'u']),
    'punct': (['a-b', 'c.d', "e'f", 'g;h', '(i)', '$j^'], ['k=l', 'm~n', 'o?', '*p', '[q]', '{r}']),
    'delims_of_others': (['x,y', 'say "q"', 'a!b', 'c;d', 'e.f', 'tab\tin'], ['X', '0', '1', '.', 'XX', '.X']),
    'digits': (['1', '22', '003', '4.5', '-6', '7e8'], ['10', '11', '012', '0x13', '1_4', '15.0']),
    'inner_space': (['two words', 'a  b', 'x y z', 'q r', 'm n', 'k l'], ['has limbs', 'can  move', 'i j', 'e f', 'g h', 'c d']),
    'latin1': (['é', 'ñandú', 'über', 'ça', 'øl', 'þorn'], ['ß', 'æther', 'Ðx', 'µm', '±1', '½'], ),
    'cjk': (['漢字', 'かな', '한글', '中文', '日本', '語'], ['属性', 'プロパ', '속성', '性质', '特徴', '値']),
    'combining': (['é', 'äb', 'ñ', 'ô', 'ü', 'ì'], ['ç', 'ž', 'š', 'ý', 'ğ', 'ḷ']),
    'table_hostile': (['a|b', '#c', 'd#e', '|', 'f|', 'g'], ['p|q', 'r#', '#', 's', 't|u', 'v']),
    'wiki_hostile': (['a!b', '!!', 'c||d', '{|', '|}', '|-'], ['!p', 'q!!r', 's', 't', 'u', 'v']),
    'csv_hostile': (['a,b', '"q"', 'line\nbreak', 'cr\r\nlf', ' lead', 'trail '], ['p,', '""', 'x\ny', "'s'", ', ,', ' ']),
    'backslash': (['a\\b', '\\', 'c\\', '\\n', 'd\\"e', '\\\\x'], ['p\\q', '\\t', 'r\\', '\\\\', "s\\'", '\\0']),
    # control characters that are no line breaks for files or for the format readers (but are for str.splitlines)
    'ctrl_inner': (['a\x1eb', 'c\x1cd', 'e\x0bf', 'g\x0ch', 'i\x1dj', 'k\x1fl'],
                   ['p\x1eq', 'r\x1c\x1ds', 't\x0bu', 'v\x0cw', 'x\x7fy', 'z\x1ez']),
    # labels that occupy no column on a terminal: lone combining marks, joiners, soft hyphen, variation
    # selector (none of them is white space, a line break or a delimiter of any format)
    'zero_width': (['\u0303', '\u200d', '\u00ad', 'x\u0301', '\u2060\u2060', '\ufe0f'],
                   ['\u0325', '\u200c', '\u0301\u0301', '\u200b', 'q', '\u034f']),
    # East Asian wide / fullwidth forms next to narrow ones (two columns on a terminal, one character)
    'fullwidth': (['\uff21', '\uff22\uff23', 'a\uff24', '\u3042', '\U0001f600', 'b'],
                  ['\uff50', 'p', '\uff51\uff52', '\u30a2x', '\U0001f60a\U0001f60a', '\uff53']),
    'long': (['o' * 40, 'a', 'bb', 'c' * 17, 'd', 'ee'], ['p', 'q' * 33, 'r', 'ss', 't' * 9, 'u']),
    # hundreds to thousands of characters, some differing only in their last character (truncation, buffers)
    'very_long': (['o' * 255 + 'x', 'o' * 255 + 'y', 'a' * 1024, 'b' * 4097, 'c' * 300, 'd'],
                  ['p' * 256, 'p' * 257, 'q' * 1023 + '1', 'q' * 1023 + '2', 'r' * 5000, 's']),
}


NUMBERED = ([f'o{i}' for i in range(1400)], [f'p{j}' for j in range(1400)])


def sized_tables(tier, seed):
    """Tables whose member counts cross the digit-count and 'thousands' boundaries (9/10/11, 99/100/101,
    999/1000/1001, 1023/1024/1025): counts in headers, column widths, chunked writers."""
    rng = random.Random(f'{seed}/c12sized')
    big = [(1000, 2), (2, 1001)] if tier == 'quick' else \
        [(999, 2), (1000, 2), (1001, 3), (2, 999), (2, 1000), (3, 1024), (1025, 2), (1234, 3), (1000, 1000)]
    small = [(10, 3), (3, 11), (100, 2), (2, 101)] if tier == 'quick' else \
        [(9, 2), (10, 3), (11, 2), (2, 9), (3, 10), (2, 11), (99, 2), (100, 3), (101, 2), (2, 99), (3, 100), (2, 101)]
    for n, m in small + big:
        d = rng.choice([.1, .5, .9]) if n * m < 10**5 else .002
        yield n, m, gen.rnd_rows(rng, n, m, d)


def tables_for(tier, seed):
    sizes = [(n, m) for n in (1, 2, 3) for m in (1, 2, 3)]
    rng = random.Random(f'{seed}/c12tables')
    for n, m in sizes:
        allrows = list(itertools.product(range(1 << m), repeat=n))
        if tier == 'quick' and n * m > 6:
            allrows = rng.sample(allrows, 24)
        for rows in allrows:
            yield n, m, list(rows)
    for _ in range(8 if tier == 'quick' else 60):
        n, m = rng.randint(4, 6), rng.randint(4, 6)
        yield n, m, gen.rnd_rows(rng, n, m, rng.choice([.2, .5, .8]))


def real_files():
    import glob
    repo = os.environ.get('VERIF_REPO', '/repo')
    for path in sorted(glob.glob(os.path.join(repo, 'examples', '*'))):
        if os.path.splitext(path)[1].lower() in ('.cxt', '.csv', '.txt') and os.path.getsize(path) < 200000:
            yield {'real': os.path.basename(path)}


def run_real(concepts, case, spec):
    """Shipped example files: load() (suffix inference) vs the independent reader (monitor), then
    every format round trip of the loaded context."""
    repo = os.environ.get('VERIF_REPO', '/repo')
    path = os.path.join(repo, 'examples', case['real'])
    ctx = call(concepts.load, path)
    COL.count('real_example_files')
    if ctx is RAISED:
        COL.violation('driver', 'real-example:load-raised', case['real'], 'exception')
        return
    call(concepts.Definition.fromfile, path, refio.SUFFIX[os.path.splitext(path)[1].lower()], 'utf-8')
    for fmt in ('table', 'cxt', 'csv', 'python-literal'):
        if not _representable(fmt, ctx.objects, ctx.properties):
            continue
        text = call(ctx.tostring, fmt)
        if text is RAISED:
            continue
        c2 = call(concepts.Context.fromstring, text, fmt)
        COL.count('judged_roundtrip')
        if c2 is RAISED or not (c2 == ctx):
            COL.violation('driver', f'roundtrip:{fmt}-real-example-gives-another-context', case['real'], repr(c2))
    call(ctx.tostring, 'wiki-table')
    call(ctx.tostring, 'fimi')


def cases(tier, seed, spec):
    yield from real_files()
    names = sorted(ALPHABETS)
    k = 0
    for n, m, rows in tables_for(tier, seed):
        for a in names:
            if tier == 'quick' and n * m > 4 and (k + names.index(a)) % 3:
                continue
            yield {'alphabet': a, 'n': n, 'm': m, 'rows': rows}
        k += 1
    for n, m, rows in sized_tables(tier, seed):
        yield {'alphabet': 'numbered', 'n': n, 'm': m, 'rows': rows}
    # pairs of different tables over the same labels whose table texts have the same length and CRC-32
    for c in gen.crc_twins(seed, 12 if tier == 'quick' else 60, tag='C12TWIN'):
        yield {'twin': True, 'objects': c['objects'], 'properties': c['properties'], 'rows': c['rows'], 'twin_rows': c['twin_rows']}


ENCODINGS = ['utf-8', 'utf-16', 'latin-1']
SUFFIX = {'table': '.txt', 'cxt': '.cxt', 'csv': '.csv', 'python-literal': '.py'}


def _mixcase(s, rng):
    return ''.join(ch.upper() if rng.random() < .5 else ch for ch in s)


def _failed_io_first(concepts, ctx, rng, work, objects, properties):
    """Exports and loads that fail *because of the environment* or are cut short, before the judged
    round trips on the same context: a missing directory, a directory in place of the file, a full
    device (``/dev/full``: the write fails when the file is closed), an encoding that cannot hold the
    labels (fails half-way through the file), a file read with the wrong codec, an export aborted
    by an injected exception.  None of these calls is judged; every export/load afterwards is."""
    C = concepts.Context
    for _ in range(rng.randint(1, 3)):
        fmt = rng.choice(['table', 'cxt', 'csv', 'python-literal', 'wiki-table', 'fimi'])
        suf = SUFFIX.get(fmt, '.txt')
        k = rng.randrange(9)
        try:
            if k == 0:
                faults.environment(lambda: ctx.tofile(os.path.join(work, 'no-such-directory', 'x' + suf), fmt))
            elif k == 1:
                faults.environment(lambda: ctx.tofile(work, fmt))
            elif k == 2 and os.path.exists('/dev/full'):
                faults.environment(lambda: ctx.tofile('/dev/full', fmt))
            elif k == 3:
                faults.environment(lambda: C.fromfile(os.path.join(work, 'no-such-file' + suf), fmt))
                faults.environment(lambda: concepts.load(os.path.join(work, 'no-such-file' + suf)))
            elif k == 4:
                # half a file in a codec that cannot hold the labels, then the same path written properly
                path = os.path.join(work, f'e{rng.randrange(10**6)}{suf}')
                if not ''.join(objects + properties).isascii() and fmt in SUFFIX:
                    call(ctx.tofile, path, fmt, 'ascii')
                    COL.count('exports_failed_half_way_by_the_codec')
                    if _representable(fmt, objects, properties) and call(ctx.tofile, path, fmt, 'utf-8') is not RAISED:
                        call(C.fromfile, path, fmt, 'utf-8')
            elif k == 5:
                # a file read with the wrong codec first
                path = os.path.join(work, f'w{rng.randrange(10**6)}{suf}')
                if fmt in SUFFIX and _representable(fmt, objects, properties) \
                        and call(ctx.tofile, path, fmt, 'utf-16') is not RAISED:
                    call(C.fromfile, path, fmt, 'utf-8')
                    COL.count('loads_tried_with_the_wrong_codec_first')
                    call(C.fromfile, path, fmt, 'utf-16')
            elif k == 6:
                # a dialect that cannot quote: the export fails at the first label that holds the
                # delimiter or a quote - after the rows before it were written - and is then repeated
                # with a dialect that can
                import csv as _csv
                if faults.environment(lambda: ctx.tostring('csv', dialect='Bare'), (_csv.Error,)) is faults.INTERRUPTED:
                    COL.count('csv_exports_failed_half_way_by_a_dialect_that_cannot_quote')
                faults.environment(lambda: ctx.tofile(os.path.join(work, f'q{rng.randrange(10**6)}.csv'), 'csv', dialect='Bare'),
                                   (_csv.Error,))
                call(ctx.tostring, 'csv')
            else:
                kw = {}
                if fmt == 'csv' and rng.random() < .5:
                    kw = {'bools_as_int': True}
                n = rng.choice([1, 2, 3, 5, 8, 12, 18, 27, 40, 60, 90, 140, 220])
                exc = rng.choice([RecursionError, MemoryError, KeyboardInterrupt])
                if faults.interrupted(lambda: ctx.tostring(fmt, **kw), n, exc) is faults.INTERRUPTED:
                    COL.count('exports_cut_short_then_repeated')
                call(ctx.tostring, fmt, **kw)
        except (core.CaseTimeout, core.CaseTooLarge):
            raise
        except BaseException as e:
            if not isinstance(e, Exception) and not isinstance(e, faults.Injected):
                raise
            COL.count('failed_io_stage_saw_' + type(e).__name__)
    COL.count('contexts_with_failed_io_before_the_round_trips')


def _definition_history(concepts, d, objects, properties, bools, rng):
    """The same writers behind a table that is being edited: export, edit (moves, renames, cells, added and
    removed names), export again - with no other call in between.  What the text shows is compared with an
    ordered-table model kept here (the ToString monitor on Definition reads the definition's own accessors,
    which is exactly what a stale export would agree with), and Context(*definition) made at that point
    must write the same table."""
    from ..tablemodel import TableModel
    model = TableModel(objects, properties, bools)
    fresh = iter(f'n{k}' for k in range(100))
    taken = set(objects) | set(properties)

    def newname():
        for x in fresh:
            if x not in taken:
                taken.add(x)
                return x

    def edit():
        k = rng.randrange(9)
        o = rng.choice(model.objects) if model.objects else None
        p_ = rng.choice(model.properties) if model.properties else None
        if k in (0, 1) and o is not None:
            return 'move_object', (o, rng.randrange(len(model.objects)))
        if k in (2, 3) and p_ is not None:
            return 'move_property', (p_, rng.randrange(len(model.properties)))
        if k == 4 and o is not None and p_ is not None:
            return '__setitem__', ((o, p_), rng.random() < .5)
        if k == 5 and o is not None:
            return 'rename_object', (o, newname())
        if k == 6 and p_ is not None:
            return 'rename_property', (p_, newname())
        if k == 7:
            return 'add_object', (newname(), rng.sample(model.properties, rng.randint(0, len(model.properties))))
        if k == 8 and len(model.objects) > 1:
            return 'remove_object', (o,)
        return None

    def exports(step):
        triple = model.triple()
        if not triple[0] or not triple[1]:
            return
        for fmt, kw in rng.sample([('table', {}), ('cxt', {}), ('csv', {}), ('csv', {'bools_as_int': True}),
                                   ('wiki-table', {})], 3):
            if not _representable(fmt, list(triple[0]), list(triple[1])):
                continue
            text = call(d.tostring, fmt, **kw)
            if text is RAISED or not isinstance(text, str):
                continue
            COL.count('judged_def_tostring_in_an_edit_history')
            _judge_written('def_tostring_history', fmt, text, (list(triple[0]), list(triple[1]), [list(r) for r in triple[2]]), kw)
        if step and rng.random() < .5:
            c2 = call(concepts.Context, *d)
            if c2 is not RAISED:
                COL.count('judged_context_made_in_an_edit_history')
                got = _triple_of_ctx(c2)
                if got != _norm(triple):
                    COL.violation('driver', 'definition-history:Context(*definition)-is-another-table', _norm(triple), got)

    if rng.random() < .5:
        exports(0)          # read first: whatever an export remembers is there before the edits
    for step in range(1, 5):
        for _ in range(rng.randint(1, 2)):
            e = edit()
            if e is None:
                continue
            op, args = e
            if model.apply(op, *args)[0] != 'ok':
                continue
            fn = getattr(d, op, None)
            if fn is None or call(fn, *args) is RAISED:
                COL.count('definition_history_edit_raised_not_continued')
                return
            COL.count('definition_history_edits')
        exports(step)


def run_twins(concepts, case, spec):
    """Two different texts of the same format, equal in length and CRC-32, parsed one after the other
    (and the first one again): each must give its own context.  Every load is judged by the monitors
    against the independent readers; the driver compares the round trips."""
    import zlib
    C = concepts.Context
    o, p = list(case['objects']), list(case['properties'])
    m = len(p)
    tables = [[tuple(bool(r >> j & 1) for j in range(m)) for r in rs] for rs in (case['rows'], case['twin_rows'])]
    ctxs = [call(C, o, p, b) for b in tables]
    if any(c is RAISED for c in ctxs):
        return
    texts = [call(c.tostring, 'table') for c in ctxs]
    if any(t is RAISED for t in texts):
        return
    if len(texts[0]) == len(texts[1]) and zlib.crc32(texts[0].encode('utf-8')) == zlib.crc32(texts[1].encode('utf-8')) \
            and texts[0] != texts[1]:
        COL.count('twin_texts_confirmed_equal_length_and_crc32')
    work = spec['workdir']
    for k in (0, 1, 0, 1):
        COL.count('judged_roundtrip')
        for what, back in (('string', call(C.fromstring, texts[k], 'table')), ('make_context', call(concepts.make_context, texts[k]))):
            if back is RAISED or _triple_of_ctx(back) != _norm((o, p, [list(r) for r in tables[k]])):
                COL.violation('driver', f'roundtrip:table-{what}-of-a-twin-text-gives-another-context',
                              _norm((o, p, [list(r) for r in tables[k]])), None if back is RAISED else _triple_of_ctx(back))
        path = os.path.join(work, f'twin{k}.txt')
        if call(ctxs[k].tofile, path, 'table') is not RAISED:
            back = call(C.fromfile, path, 'table')
            if back is RAISED or _triple_of_ctx(back) != _norm((o, p, [list(r) for r in tables[k]])):
                COL.violation('driver', 'roundtrip:table-file-of-a-twin-text-gives-another-context',
                              _norm((o, p, [list(r) for r in tables[k]])), None if back is RAISED else _triple_of_ctx(back))
        for fmt in ('cxt', 'csv', 'python-literal'):
            t = call(ctxs[k].tostring, fmt)
            if t is not RAISED and _representable(fmt, o, p):
                back = call(C.fromstring, t, fmt)
                if back is RAISED or _triple_of_ctx(back) != _norm((o, p, [list(r) for r in tables[k]])):
                    COL.violation('driver', f'roundtrip:{fmt}-string-of-a-twin-gives-another-context',
                                  _norm((o, p, [list(r) for r in tables[k]])), None if back is RAISED else _triple_of_ctx(back))
    COL.nontrivial('twin', tuple(o), tuple(p), tuple(case['rows']))


def run_case(concepts, case, spec):
    if 'real' in case:
        return run_real(concepts, case, spec)
    if case.get('twin'):
        return run_twins(concepts, case, spec)
    C, D = concepts.Context, concepts.Definition
    rng = random.Random(f"{spec['seed']}/c12/{core.dumps(case)}")
    o, p = NUMBERED if case['alphabet'] == 'numbered' else ALPHABETS[case['alphabet']]
    n, m, rows = case['n'], case['m'], case['rows']
    objects, properties = o[:n], p[:m]
    bools = [tuple(bool(r >> j & 1) for j in range(m)) for r in rows]
    ctx = call(C, objects, properties, bools)
    if ctx is RAISED:
        COL.harness_error('Context() raised on a valid table')
        return
    triple = (objects, properties, [list(b) for b in bools])
    work = spec['workdir']
    delim = any(any(d in l for d in DELIMS) for l in objects + properties)
    blank_edge = rows[0] == 0 or rows[-1] == 0 or all(not r & 1 for r in rows) or all(not r >> (m - 1) & 1 for r in rows)
    if rng.random() < .02:
        COL.sample({'alphabet': case['alphabet'], 'objects': objects, 'properties': properties, 'rows': rows})

    def same(what, fmt, c2):
        COL.count('judged_roundtrip')
        if c2 is RAISED:
            COL.violation('driver', f'roundtrip:{fmt}-{what}-raised', triple, 'exception')
            return
        try:
            got = _triple_of_ctx(c2)
            eq = (c2 == ctx) and not (c2 != ctx)
        except Exception as e:
            COL.violation('driver', f'roundtrip:{fmt}-{what}-result-unreadable', triple, repr(e))
            return
        if got != _norm(triple) or not eq:
            COL.violation('driver', f'roundtrip:{fmt}-{what}-gives-another-context', _norm(triple), got)

    variants = [('table', {}, {}), ('table', {'indent': rng.choice([1, 4, 9])}, {}),
                ('cxt', {}, {}),
                ('csv', {}, {}), ('csv', {'bools_as_int': True}, {}),
                ('csv', {'dialect': 'excel-tab'}, {'dialect': 'excel-tab'}),
                ('csv', {'dialect': 'unix', 'bools_as_int': rng.random() < .5}, {'dialect': 'unix'}),
                ('csv', {'dialect': 'Pipes'}, {'dialect': 'Pipes'}),
                ('csv', {'dialect': 'GermanExcel', 'bools_as_int': True}, {'dialect': 'GermanExcel'}),
                ('csv', {'object_header': 'name'}, {}),
                ('csv', {'object_header': properties[0]}, {}),
                ('csv', {'object_header': objects[-1], 'bools_as_int': True}, {}),
                ('python-literal', {}, {})]
    if (rows[0] + n + m) % 2:
        # the same context object has been printed / fingerprinted before it is written
        call(repr, ctx), call(str, ctx), call(ctx.crc32), call(ctx.tostring)
        COL.count('written_after_repr_str_crc32')
    if (rows[-1] + 2 * n + m) % 3 == 0:
        _failed_io_first(concepts, ctx, rng, work, objects, properties)
    for fmt, dkw, lkw in variants:
        rep = _representable(fmt, objects, properties)
        if rep and (delim or blank_edge):
            COL.nontrivial(fmt, tuple(objects), tuple(properties), tuple(rows))
        text = call(ctx.tostring, fmt, **dkw)
        if text is RAISED or not rep:
            continue
        if fmt == 'csv' and 'bools_as_int' in dkw and rng.random() < .5:
            lkw = dict(lkw, bools_as_int=bool(dkw['bools_as_int']))
        same('string', fmt, call(C.fromstring, text, fmt, **lkw))
        if fmt == 'table' and not dkw:
            same('make_context', fmt, call(concepts.make_context, text))
        # files
        for enc in ENCODINGS:
            try:
                ''.join(objects + properties).encode(enc)
            except UnicodeEncodeError:
                continue
            if enc != 'utf-8' and rng.random() < .5:
                continue
            path = os.path.join(work, f'f{rng.randrange(10**6)}{SUFFIX[fmt]}')
            style = rng.randrange(5)
            if style == 0:      # bare relative file name (the shard's cwd is its work directory)
                path = f'bare{rng.randrange(10**6)}{SUFFIX[fmt]}'
                COL.count('path_bare_relative')
            elif style == 1:
                import pathlib
                path = pathlib.Path(path)
                COL.count('path_pathlike')
            elif style == 2:
                path = os.fsencode(path)
                COL.count('path_bytes')
            if call(ctx.tofile, path, fmt, enc, **dkw) is RAISED:
                if style in (0, 1, 2):
                    COL.violation('driver', 'tofile:' + fmt + '-raised-for-' + ['bare-relative', 'PathLike', 'bytes'][style] + '-path',
                                  'a file', 'exception')
                continue
            if style == 2:
                path = os.fsdecode(path)
            same(f'file-{enc}', fmt, call(C.fromfile, path, fmt, enc, **lkw))
            dd = call(D.fromfile, path, fmt, enc, **lkw)
            if dd is not RAISED and (list(dd.objects), list(dd.properties), [list(r) for r in dd.bools]) != _norm(triple):
                COL.violation('driver', f'roundtrip:{fmt}-Definition.fromfile-gives-another-table', _norm(triple),
                              [list(dd.objects), list(dd.properties), dd.bools])
            if not lkw and fmt != 'csv' or (fmt == 'csv' and not dkw.get('dialect')):
                # load() infers the format from the suffix, case-insensitively
                p2 = os.path.join(work, f'g{rng.randrange(10**6)}' + _mixcase(SUFFIX[fmt], rng))
                os.replace(os.fspath(path), p2)
                path = p2
                COL.count('suffix_inference_checked')
                same(f'load-{enc}', fmt, call(concepts.load, path, enc))
                if fmt == 'cxt':
                    same('load_cxt', fmt, call(concepts.load_cxt, path, enc))
                if fmt == 'csv':
                    same('load_csv', fmt, call(concepts.load_csv, path, 'excel', enc))
            try:
                os.remove(path)
            except OSError:
                pass
    # (c) independent writers -------------------------------------------------
    if _representable('table', objects, properties):
        for style in range(4):
            t = refio.write_table(objects, properties, bools, style)
            COL.count('independent_writer_texts_loaded')
            same(f'independent-writer-style{style}', 'table', call(C.fromstring, t, 'table'))
    if _representable('cxt', objects, properties):
        for style in range(2):
            t = refio.write_cxt(objects, properties, bools, style)
            COL.count('independent_writer_texts_loaded')
            same(f'independent-writer-style{style}', 'cxt', call(C.fromstring, t, 'cxt'))
    if _representable('csv', objects, properties):
        for dialect, as_int in (('excel', False), ('excel', True), ('excel-tab', False), ('unix', True)):
            t = refio.write_csv(objects, properties, bools, dialect, as_int, header=rng.choice(['', 'name']))
            COL.count('independent_writer_texts_loaded')
            lkw = {} if dialect == 'excel' else {'dialect': dialect}
            same(f'independent-writer-{dialect}-{as_int}', 'csv', call(C.fromstring, t, 'csv', **lkw))
    # (b) dump-only formats ------------------------------------------------------
    call(ctx.tostring, 'wiki-table')
    call(ctx.tostring, 'wikitable')
    call(ctx.tostring, 'fimi')
    call(ctx.tostring, 'FIMI')
    path = os.path.join(work, f'h{rng.randrange(10**6)}.dat')
    call(ctx.tofile, path, 'fimi', 'ascii')
    d = call(ctx.definition)
    if d is not RAISED:
        for fmt in ('table', 'cxt', 'csv', 'wiki-table'):
            call(d.tostring, fmt)
        _definition_history(concepts, d, objects, properties, bools, rng)
    # (d) concept .dat files -------------------------------------------------------
    cl = call(concepts.algorithms.get_concepts, ctx)
    if cl is not RAISED:
        call(cl.tofile, path)
        r = call(concepts.formats.read_concepts_dat, path)
        if r is not RAISED:
            call(list, r)
        call(concepts.formats.write_concepts_dat, path, iter(list(cl)), extents=True)
        r = call(concepts.formats.read_concepts_dat, path)
        if r is not RAISED:
            call(list, r)
    try:
        os.remove(path)
    except OSError:
        pass
