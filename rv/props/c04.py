"""C04 - FCbO, its dual and the list/iterator wrappers agree on the set of concepts."""

from .. import attach, gen, core
from ..attach import Monitor
from ..core import COL
from . import common
from .common import call, RAISED
from .c03 import judge_pairs

CAP = {'quick': 1500, 'thorough': 4000}
BIGCAP = 70000
STATE = {'cap': None}

META = {
    'rule': ('cases: the C03 context stream. Events: every exhausted (or abandoned) run of '
             'fast_generate_from and fcbo_dual (each through both bindings, concepts.algorithms.* '
             'and concepts.algorithms.fcbo.*), iterconcepts and get_concepts, plus iteration of '
             'context.lattice for the cross-check. Oracle per run: pairs decoded through '
             'members(); no pair twice; each pair a formal concept by direct derivation; the set '
             'equals the shadow concept set. Emission order is not judged. get_concepts items: '
             'objects/properties/index_sets/n_objects/n_properties consistent with the pair. '
             'distinct_nontrivial = distinct tables with >= 3 concepts.'),
    'evaluation_counters': ['judged_fast_generate_from', 'judged_fcbo_dual', 'judged_iterconcepts',
                            'judged_get_concepts', 'judged_lattice_crosscheck'],
    'required_counters': ['judged_fast_generate_from', 'judged_fcbo_dual', 'judged_iterconcepts',
                          'judged_get_concepts', 'judged_lattice_crosscheck', 'judged_items_of_get_concepts',
                          'interleaved_generator_runs', 'suspended_generator_with_foreign_runs'],
    'shards': {'quick': 16, 'thorough': 16},
    'exhaustive': {'quick': 'all 682 boolean tables <= 3x3',
                   'thorough': 'all boolean tables <= 3x3 plus all 3x4, 4x3 and 4x4 tables'},
    'assumptions': ['raw pairs are decoded through their public members()'],
}
META['rule'] += (' BIGLAT: additionally the Boolean lattice of 16 384 concepts (contranominal scale 14) in the quick '
                 'tier and those of 32 768 and 65 536 concepts in the thorough tier.')


def _decode(items):
    out = []
    for it in items:
        e, i = it
        out.append((tuple(e.members()), tuple(i.members())))
    return out


class GenMonitor(Monitor):
    def __init__(self, name, cap):
        self.gname = name
        self.cap = cap

    def after(self, token, args, kwargs, result):
        ctx = common.get_arg(args, kwargs, 0, 'context')
        sh = attach.shadow_of(ctx)
        name, cap = self.gname, (STATE['cap'] or self.cap)

        def judge(items, complete, exc):
            COL.count('judged_' + name)
            if exc is not None:
                COL.violation(name, f'{name}:raised-{type(exc).__name__}', 'all concepts', repr(exc))
                return
            if not complete:
                COL.count('judged_abandoned')
            try:
                pairs = _decode(items)
            except Exception as e:
                COL.violation(name, f'{name}:item-not-decodable', None, repr(e))
                return
            judge_pairs(sh, pairs, cap, name, complete)
        def limit():
            try:
                return sh.lattice(cap).n
            except core.CaseTooLarge:
                return None
        return attach.Replace(common.recording(result, judge, name, limit))

    def raised(self, token, args, kwargs, exc):
        COL.count('judged_' + self.gname)
        COL.violation(self.gname, f'{self.gname}:raised-{type(exc).__name__}', 'a generator', repr(exc))


class ListMonitor(Monitor):
    """get_concepts(context) -> ConceptList"""
    def __init__(self, cap):
        self.cap = cap

    def after(self, token, args, kwargs, result):
        ctx = common.get_arg(args, kwargs, 0, 'context')
        sh = attach.shadow_of(ctx)
        COL.count('judged_get_concepts')
        try:
            pairs = _decode(result)
        except Exception as e:
            COL.violation('get_concepts', 'get_concepts:item-not-decodable', None, repr(e))
            return
        judge_pairs(sh, pairs, STATE['cap'] or self.cap, 'get_concepts')
        for item, (ext, int_) in list(zip(result, pairs))[:60]:
            COL.count('judged_items_of_get_concepts')
            try:
                ok = (tuple(item.objects) == ext and tuple(item.properties) == int_
                      and item.n_objects == len(ext) and item.n_properties == len(int_)
                      and tuple(item.index_sets()[0]) == tuple(sh.oidx[o] for o in ext)
                      and tuple(item.index_sets()[1]) == tuple(sh.pidx[p] for p in int_)
                      and item.index_sets(as_set=True) == (frozenset(sh.oidx[o] for o in ext),
                                                           frozenset(sh.pidx[p] for p in int_)))
            except Exception as e:
                ok = False
                ext = repr(e)
            if not ok:
                COL.violation('get_concepts', 'get_concepts:item-accessors-inconsistent',
                              [ext, int_], repr(item))

    def raised(self, token, args, kwargs, exc):
        COL.count('judged_get_concepts')
        COL.violation('get_concepts', f'get_concepts:raised-{type(exc).__name__}', 'a list', repr(exc))


def setup(concepts, spec):
    from .. import probes
    probes.install(['fcbo'])
    cap = CAP[spec['tier']]
    attach.attach_ctor(concepts)
    alg = concepts.algorithms
    attach.attach(alg.fcbo, 'fast_generate_from', GenMonitor('fast_generate_from', cap))
    attach.attach(alg.fcbo, 'fcbo_dual', GenMonitor('fcbo_dual', cap))
    attach.attach(alg, 'iterconcepts', GenMonitor('iterconcepts', cap))
    attach.attach(alg, 'get_concepts', ListMonitor(cap))
    global POOL
    POOL = common.Pool(5)


def repeated_exh(tier, seed):
    """Every (thorough) / a sample of (quick) the 4x3 and 3x3 boolean tables with each row repeated
    260-300 times: the structure of a tiny table on extents of hundreds of objects."""
    import itertools
    import random as _r
    rng = _r.Random(f'{seed}/repeated-exh')
    tables = list(itertools.product(range(8), repeat=4)) + list(itertools.product(range(8), repeat=3))
    if tier == 'quick':
        tables = rng.sample(tables, 120)
    for k, t in enumerate(tables):
        rows = []
        for r in t:
            rows += [r] * rng.randint(260, 300)
        yield gen.case('REPEATED-EXH', rows, 3, gen.SCHEMES[k % 5], rng)


def cases(tier, seed, spec):
    yield from (c for c in gen.deep(tier, seed) if tier == 'thorough' or c['fam'].endswith('specific-first'))
    yield from repeated_exh(tier, seed)
    yield from gen.repeated(seed, 16 if tier == 'quick' else 400)
    yield from gen.biglat(tier, quick_sizes=(14,))
    # 8 200 - 33 000 properties over a handful of objects (tiny lattice): thresholds on the property axis
    yield from gen.giant(seed, 1 if tier == 'quick' else 4, only='wide')
    yield from gen.ctx_stream(tier, seed)


def run_case(concepts, case, spec):
    rng = common.rng_for(case, spec)
    ctx = common.build_or_skip(concepts, case)
    if ctx is None:
        return
    sh = attach.shadow_of(ctx)
    big = case['fam'].startswith('BIGLAT')
    cap = BIGCAP if big else CAP[spec['tier']]
    STATE['cap'] = cap
    if big:
        COL.count('biglat_cases')
    sl = sh.lattice(cap)
    alg = concepts.algorithms
    COL.sample({'table': case, 'n_concepts': sl.n})
    # on a context nobody has asked anything yet: a traversal is suspended after a few items, a second
    # one (same or another entry point) runs to its end, then the first one is resumed - nested loops
    if hash(gen.table_key(case)) % 3 == 0 and not big and len(case['objects']) <= 300 and len(case['properties']) <= 300:
        fns = [alg.iterconcepts, alg.fast_generate_from, alg.fcbo_dual, alg.get_concepts]
        for k in range(3):
            fresh_ctx = ctx if k == 0 else common.build_or_skip(concepts, case)
            if fresh_ctx is None:
                break
            outer, inner = fns[k], fns[(k + hash(gen.table_key(case)) // 3) % 4]
            g1 = call(outer, fresh_ctx)
            if g1 is RAISED:
                continue
            for _ in range(rng.randint(1, 3)):
                next(g1, None)
            g2 = call(inner, fresh_ctx)
            if g2 is not RAISED:
                call(list, g2)
            call(list, g1)
            COL.count('nested_traversals_on_a_fresh_context')
    # the FIRST traversal a context ever sees is given up early - the consumer's loop breaks, raises, closes
    # the generator or simply drops it - and only then the complete runs are made (all entry points)
    if hash(gen.table_key(case)) % 3 == 1 and not big and len(case['objects']) <= 300 and len(case['properties']) <= 300:
        import gc
        for k, first in enumerate([alg.iterconcepts, alg.fast_generate_from, alg.fcbo_dual, alg.iterconcepts]):
            fresh_ctx = common.build_or_skip(concepts, case)
            if fresh_ctx is None:
                break
            g = call(first, fresh_ctx)
            if g is RAISED:
                continue
            how = (k + rng.randrange(4)) % 4
            try:
                for _ in range(rng.randint(0 if how else 1, 4)):
                    next(g, None)
                if how == 0:
                    g.close()
                elif how == 1:
                    g.throw(KeyError('the consumer gave up'))
                elif how == 2:
                    del g
                    gc.collect()
                else:
                    try:
                        for step, _ in enumerate(g):
                            if step >= 1:
                                raise LookupError('raised inside the consumer loop')
                    finally:
                        del g
            except (core.CaseTimeout, core.CaseTooLarge):
                raise
            except Exception:
                pass
            for fn in rng.sample([alg.get_concepts, alg.iterconcepts, alg.fast_generate_from, alg.fcbo_dual], 3):
                g2 = call(fn, fresh_ctx)
                if g2 is not RAISED:
                    call(list, g2)
            COL.count('first_traversal_of_a_fresh_context_given_up_early')
    results = {}
    for name, fn in [('fast_generate_from', alg.fast_generate_from),
                     ('fcbo.fast_generate_from', alg.fcbo.fast_generate_from),
                     ('fcbo_dual', alg.fcbo_dual), ('fcbo.fcbo_dual', alg.fcbo.fcbo_dual),
                     ('iterconcepts', alg.iterconcepts), ('get_concepts', alg.get_concepts)]:
        g = call(fn, ctx)
        if g is RAISED:
            continue
        items = call(list, g)
        if items is RAISED:
            continue
        try:
            results[name] = {(tuple(e.members()), tuple(i.members())) for e, i in items}
        except Exception:
            pass
    if rng.random() < .25:
        g = call(alg.fast_generate_from, ctx)      # abandoned run: judged as a prefix
        if g is not RAISED:
            for _ in range(rng.randint(0, 3)):
                next(g, None)
            del g
    # two runs of the same generator over the same context alive at once
    if rng.random() < .3:
        for fn in (alg.fast_generate_from, alg.fcbo_dual, alg.iterconcepts):
            g1 = call(fn, ctx)
            if g1 is RAISED:
                continue
            for _ in range(rng.randint(0, 3)):
                next(g1, None)
            g2 = call(fn, ctx)
            if g2 is not RAISED:
                call(list, g2)
            call(list, g1)
            COL.count('interleaved_generator_runs')
    old = POOL.older(rng)
    if old is not None and rng.random() < .5:
        # for c in iterconcepts(a): get_concepts(b)  - a run suspended while runs over ANOTHER context
        # (and out-of-phase runs over the same one) execute
        for fn in (alg.fast_generate_from, alg.fcbo_dual, alg.iterconcepts):
            g = call(fn, ctx)
            if g is RAISED:
                continue
            for step, _ in enumerate(g):
                if step in (1, 3):
                    call(alg.get_concepts, old)
                    g2 = call(alg.fcbo_dual, old)
                    if g2 is not RAISED:
                        call(list, g2)
                if step == 2:
                    g3 = call(fn, ctx)
                    if g3 is not RAISED:
                        next(g3, None)
                        call(list, g3)
            COL.count('suspended_generator_with_foreign_runs')
    if old is not None:
        for fn in (alg.fast_generate_from, alg.fcbo_dual, alg.get_concepts):
            g = call(fn, old)
            if g is not RAISED:
                call(list, g)
        COL.count('session_requeries')
    POOL.add(ctx)
    if len(ctx.objects) <= 12 and len(ctx.properties) <= 12 and sl.n <= 200:
        common.interference(concepts, ctx, common.get_lattice(ctx), rng, 15)
        for fn in (alg.fast_generate_from, alg.fcbo_dual, alg.get_concepts):
            g = call(fn, ctx)
            if g is not RAISED:
                call(list, g)
        COL.count('asked_again_after_interference')
    # cross-check with context.lattice (driver side, C03 judges the lattice itself)
    if case.get('deep') or case['fam'].startswith('REPEATED'):
        # Lindig on a 1 000-chain or on hundreds of repeated rows takes minutes: generators only
        COL.count('cases_without_lattice_crosscheck')
        return
    lat = common.get_lattice(ctx)
    if lat is not RAISED:
        latset = {(tuple(c.extent), tuple(c.intent)) for c in lat}
        COL.count('judged_lattice_crosscheck')
        for name, s in results.items():
            if s != latset:
                COL.violation('driver', 'generator-disagrees-with-context.lattice',
                              {'lattice': len(latset)}, {name: len(s)})
