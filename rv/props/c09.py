"""C09 - upset/downset traversals yield exactly the filters/ideals, once, in rank order."""

from .. import attach, gen, core
from ..attach import Monitor
from ..core import COL
from ..shadow import bits
from . import common
from .common import call, RAISED

CAP = {'quick': 600, 'thorough': 1500}
BIGSEED_CAP = 4800

META = {
    'rule': ('cases: the standard context stream. Per lattice: upset() and downset() of every '
             'concept (<= 120 concepts, sampled beyond), upset_union/downset_union over all pairs '
             '(<= 20 concepts) plus sampled multisets with repeats and comparable members (list, '
             'generator and set form), the empty collection, and abandoned traversals. Recording '
             'proxies judge each run when it ends: the yielded members, by identity, are exactly '
             'the shadow filter/ideal (union of them), each once, in strictly increasing '
             'index/dindex; an abandoned run must be the prefix of that sequence. '
             'distinct_nontrivial = distinct (table, kind, seed set) whose result has a member '
             'reached along >= 2 cover paths (where de-duplication in the heap merge acts).'),
    'evaluation_counters': ['judged_upset', 'judged_downset', 'judged_upset_union', 'judged_downset_union'],
    'required_counters': ['judged_upset', 'judged_downset', 'judged_upset_union', 'judged_downset_union',
                          'judged_empty_seeds', 'judged_abandoned', 'results_with_multipath_member',
                          'seeds_with_repeats', 'seeds_with_comparable_members', 'interleaved_traversals',
                          'judged_orphaned_concepts', 'bigseed_cases', 'nested_traversals'],
    'shards': {'quick': 16, 'thorough': 16},
    'exhaustive': {'quick': 'all tables <= 3x3 x all concepts, all seed pairs',
                   'thorough': 'all tables <= 3x3, 3x4, 4x3, 4x4 x all concepts, all seed pairs'},
    'assumptions': ['seeds that are not members of the receiving lattice are out of scope'],
}
META['rule'] += (' BIGLAT: additionally the Boolean lattice of 16 384 concepts (contranominal scale 14) in the quick '
                 'tier, in both tiers the contranominal scale 15 plus an isolated pair (32 769 concepts, index 2**15 included), and those of 32 768 and 65 536 concepts in the thorough tier.')


def _expected(view, seeds_sidx, up):
    """Shadow filter/ideal of the seed set as ordered list of *real* member indexes."""
    sl = view.sl
    mask = 0
    for s in seeds_sidx:
        mask |= sl.up(s) if up else sl.down(s)
    idxs = bits(mask)
    if up:
        order = sorted(idxs)                       # ascending index = shortlex
    else:
        d = sl.dindex()
        order = sorted(idxs, key=d.__getitem__)
    # multi-path: some member of the result has >= 2 covers (in the travel direction) inside the result
    multipath = False
    for k in idxs:
        nb = sl.lower(k) if up else sl.upper(k)
        if sum(1 for x in nb if mask >> x & 1) >= 2:
            multipath = True
            break
    return order, multipath


def _judge_run(view, kind, up, seed_ks, items, complete, exc, argdesc):
    COL.count('judged_' + kind)
    if exc is not None:
        COL.violation(kind, f'{kind}:raised-{type(exc).__name__}', 'members', repr(exc), {'seeds': argdesc})
        return
    if not view.faithful():
        COL.count('unfaithful_lattice_skipped')      # C03/C06's business
        return
    seeds_sidx = [view.sidx[k] for k in seed_ks]
    order, multipath = _expected(view, seeds_sidx, up)
    got = [view.by_id.get(id(c)) for c in items]
    if None in got:
        COL.violation(kind, f'{kind}:yielded-a-non-member', None, [repr(c) for c in items][:10], {'seeds': argdesc})
        return
    if len(set(got)) != len(got):
        COL.violation(kind, f'{kind}:member-yielded-twice', order, got, {'seeds': argdesc})
    if complete:
        if sorted(got) != sorted(order):
            COL.violation(kind, f'{kind}:not-exactly-the-{"filter" if up else "ideal"}',
                          [repr(view.members[k]) for k in order][:12],
                          [repr(view.members[k]) for k in got][:12], {'seeds': argdesc})
        elif got != order:
            COL.violation(kind, f'{kind}:not-in-rank-order', order, got, {'seeds': argdesc})
    else:
        COL.count('judged_abandoned')
        if got != order[:len(got)]:
            COL.violation(kind, f'{kind}:abandoned-run-is-not-a-prefix', order[:len(got)], got, {'seeds': argdesc})
    # ranks read from the members themselves must be strictly increasing
    try:
        ranks = [c.index if up else c.dindex for c in items]
    except AttributeError:
        ranks = []
    if any(not a < b for a, b in zip(ranks, ranks[1:])):
        COL.violation(kind, f'{kind}:ranks-not-strictly-increasing', 'increasing', ranks, {'seeds': argdesc})
    if not seed_ks:
        COL.count('judged_empty_seeds')
        if items:
            COL.violation(kind, f'{kind}:empty-seeds-yield-something', [], [repr(c) for c in items][:5])
    if multipath:
        COL.count('results_with_multipath_member')
        COL.nontrivial(view.sh.key(), kind, tuple(sorted(set(seeds_sidx))))


class SetMonitor(Monitor):
    """Concept.upset()/downset()"""
    def __init__(self, kind, up, cap):
        self.kind, self.up, self.cap = kind, up, cap

    def after(self, token, args, kwargs, result):
        c = args[0]
        if len(args) > 1 or kwargs:
            COL.count('out_of_scope_private_parameters')
            return
        lat = getattr(c, 'lattice', None)
        if lat is None:
            return
        view = common.view_of(lat, self.cap)
        k = view.by_id.get(id(c))
        if k is None:
            COL.count('out_of_scope_foreign_concept')
            return
        kind, up = self.kind, self.up

        def judge(items, complete, exc):
            _judge_run(view, kind, up, [k], items, complete, exc, [repr(c)])
        return attach.Replace(common.recording(result, judge, kind, lambda: len(view.members)))


class UnionMonitor(Monitor):
    def __init__(self, kind, up, cap):
        self.kind, self.up, self.cap = kind, up, cap

    def before(self, args, kwargs):
        if len(args) > 2 or any(k != 'concepts' for k in kwargs):
            COL.count('out_of_scope_private_parameters')
            return None
        items, a2, k2 = common.read_iterable(args, kwargs, 1, 'concepts')
        if items is None:
            return None
        return attach.Args((args[0], items), a2, k2)

    def after(self, token, args, kwargs, result):
        if token is None:
            return
        lat, seeds = token
        view = common.view_of(lat, self.cap)
        ks = [view.by_id.get(id(c)) for c in seeds]
        if None in ks:
            COL.count('out_of_scope_foreign_concept')
            return
        kind, up = self.kind, self.up
        if len(set(ks)) < len(ks):
            COL.count('seeds_with_repeats')
        sl = view.sl
        if view.faithful() and any(a != b and sl.leq(view.sidx[a], view.sidx[b]) for a in set(ks) for b in set(ks)):
            COL.count('seeds_with_comparable_members')

        def judge(items, complete, exc):
            _judge_run(view, kind, up, ks, items, complete, exc, [repr(c) for c in seeds][:8])
        return attach.Replace(common.recording(result, judge, kind, lambda: len(view.members)))

    def raised(self, token, args, kwargs, exc):
        if token is None:
            return
        lat, seeds = token
        view = common.view_of(lat, self.cap)
        if any(view.by_id.get(id(c)) is None for c in seeds):
            COL.count('out_of_scope_foreign_concept')
            return
        COL.count('judged_' + self.kind)
        COL.violation(self.kind, f'{self.kind}:raised-{type(exc).__name__}', 'an iterator', repr(exc),
                      {'seeds': [repr(c) for c in seeds][:8]})


def setup(concepts, spec):
    from .. import probes
    probes.install(['iterunion'])
    cap = CAP[spec['tier']]
    attach.attach_ctor(concepts)
    nm = concepts.lattice_members.Concept
    attach.attach(nm, 'upset', SetMonitor('upset', True, cap))
    attach.attach(nm, 'downset', SetMonitor('downset', False, cap))
    common.attach_overrides(concepts, nm, ['upset'], lambda: SetMonitor('upset', True, cap))
    common.attach_overrides(concepts, nm, ['downset'], lambda: SetMonitor('downset', False, cap))
    nl = concepts.lattices.Lattice
    attach.attach(nl, 'upset_union', UnionMonitor('upset_union', True, cap))
    attach.attach(nl, 'downset_union', UnionMonitor('downset_union', False, cap))
    global POOL
    POOL = common.Pool(4)


def bigseed_cases(tier):
    for n in ([12] if tier == 'quick' else [11, 12]):
        full = (1 << n) - 1
        yield dict(gen.case(f'BIGSEEDS:contranominal{n}', [full & ~(1 << i) for i in range(n)], n, 'rev'), bigseeds=True)


def run_bigseeds(concepts, case, spec):
    """Unions seeded with more than 1 000 distinct concepts (lattices of 1 024 / 2 048 concepts)."""
    rng = common.rng_for(case, spec)
    ctx = common.build_or_skip(concepts, case)
    if ctx is None:
        return
    sh = attach.shadow_of(ctx)
    sh.cap_override = BIGSEED_CAP
    lat = common.get_lattice(ctx)
    if lat is RAISED:
        return
    members = list(lat)
    COL.count('bigseed_cases')
    for size in (1001, 1010, len(members)):
        seeds = rng.sample(members, min(size, len(members)))
        call(list, lat.upset_union(seeds))
        call(list, lat.downset_union(seeds))
    # whole layers of the Boolean lattice: > 1 000 pairwise distinct seeds, many of them incomparable,
    # whose union of up/downsets is far from everything
    for lo, hi in ((sh.n // 2, sh.n // 2 + 1), (sh.n // 2 - 1, sh.n // 2), (sh.n // 2 + 1, sh.n // 2 + 2)):
        layer = [c for c in members if lo <= len(c.extent) <= hi]
        rng.shuffle(layer)
        if len(layer) > 1000:
            COL.count('seed_sets_over_1000_incomparable')
            call(list, lat.upset_union(layer))
            call(list, lat.downset_union(layer))
            call(list, lat.upset_union(layer[:1003]))
            call(list, lat.downset_union(layer[:1003]))


def cases(tier, seed, spec):
    yield from bigseed_cases(tier)
    yield from gen.biglat(tier, quick_sizes=(14,))
    yield from gen.biglat_plus(15)       # 32 769 concepts: indexes up to 2**15 inclusive
    yield from gen.ctx_stream(tier, seed)


def run_biglat(concepts, case, spec):
    """Tens of thousands of concepts: the shadow's O(n^2) order is unaffordable, so the traversals
    are judged by an O(n) definitional filter over the member list (extent inclusion)."""
    rng = common.rng_for(case, spec)
    ctx = common.build_or_skip(concepts, case)
    if ctx is None:
        return
    sh = attach.shadow_of(ctx)
    lat = common.get_lattice(ctx)
    if lat is RAISED:
        COL.violation('driver', 'biglat:construction-raised', 'a lattice', 'exception')
        return
    members = list(lat)
    masks = [sh.omask(c.extent) for c in members]
    COL.count('biglat_cases')
    COL.sample({'fam': case['fam'], 'n_concepts': len(members)})
    if len(set(masks)) != len(masks) or len(masks) != case.get('n_concepts', 1 << sh.n):
        COL.count('biglat_member_list_unusable')      # C03's business
        return
    pos = {id(c): k for k, c in enumerate(members)}
    dkey = sorted(range(len(members)), key=lambda k: members[k].dindex)

    def judge(kind, up, seeds, items):
        COL.count('judged_' + kind)
        COL.count('judged_biglat_traversals')
        sm = [masks[k] for k in seeds]
        if up:
            want = [k for k in range(len(members)) if any(s & masks[k] == s for s in sm)]
        else:
            want = [k for k in dkey if any(masks[k] & s == masks[k] for s in sm)]
        got = [pos.get(id(c)) for c in items]
        if got != want:
            mech = f'{kind}:not-exactly-the-{"filter" if up else "ideal"}' if sorted(map(str, got)) != sorted(map(str, want)) \
                else f'{kind}:not-in-rank-order'
            COL.violation(kind, mech, {'n': len(want), 'head': want[:8]}, {'n': len(got), 'head': got[:8]},
                          {'seeds': seeds, 'biglat': case['fam']})
    n = len(members)
    plan = [('upset', True, [0]), ('downset', False, [n - 1]), ('upset', True, [rng.randrange(n)]),
            ('downset', False, [rng.randrange(n)]), ('upset', True, [1]), ('downset', False, [n - 2])]
    for kind, up, seeds in plan:
        c = members[seeds[0]]
        r = call(list, c.upset() if up else c.downset())
        if r is RAISED:
            COL.violation(kind, f'{kind}:raised', 'members', 'exception', {'biglat': case['fam']})
        else:
            judge(kind, up, seeds, r)
    for kind, up in (('upset_union', True), ('downset_union', False)):
        seeds = [rng.randrange(n) for _ in range(4)] + ([0, 1] if up else [n - 1, n - 2])
        r = call(list, (lat.upset_union if up else lat.downset_union)([members[k] for k in seeds]))
        if r is RAISED:
            COL.violation(kind, f'{kind}:raised', 'members', 'exception', {'biglat': case['fam']})
        else:
            judge(kind, up, seeds, r)


ORPHANS = []


def run_case(concepts, case, spec):
    if case.get('bigseeds'):
        return run_bigseeds(concepts, case, spec)
    if case.get('fam', '').startswith('BIGLAT'):
        return run_biglat(concepts, case, spec)
    rng = common.rng_for(case, spec)
    ctx = common.build_or_skip(concepts, case)
    if ctx is None:
        return
    sh = attach.shadow_of(ctx)
    cap = CAP[spec['tier']]
    sl = sh.lattice(cap)
    lat = common.get_lattice(ctx)
    if lat is RAISED:
        COL.count('lattice_construction_raised')
        return
    members = list(lat)
    n = len(members)
    thorough = spec['tier'] == 'thorough'
    COL.sample({'table': case, 'n_concepts': sl.n,
                'calls': 'upset/downset of each concept; unions over pairs and multisets'})
    # first thing on a fresh lattice (a lazily filled cache would still be empty here):
    # two traversals of the same concept alive at once (nested loops in user code): the
    # suspended one must not lose what the other one pulls meanwhile
    for _ in range(6):
        c = members[rng.randrange(n)]
        for make in ((lambda: c.upset()), (lambda: c.downset()),
                     (lambda: lat.upset_union([c, members[rng.randrange(n)]]))):
            it1 = call(make)
            if it1 is RAISED:
                continue
            for _ in range(rng.randint(0, 2)):
                next(it1, None)
            it2 = call(make)
            if it2 is not RAISED:
                call(list, it2)
            call(list, it1)
            COL.count('interleaved_traversals')
    # the classic nested loop: for c in x.upset(): list(c.upset())  (same direction, same lattice)
    for up in (True, False):
        x = members[rng.randrange(n)] if n > 1 else members[0]
        x = members[0] if up else members[-1]
        outer = call(x.upset if up else x.downset)
        if outer is not RAISED:
            for k_, c in enumerate(outer):
                if k_ >= 6:
                    break
                call(list, c.upset() if up else c.downset())
                call(list, (lat.upset_union if up else lat.downset_union)([c, x]))
            del outer
        COL.count('nested_traversals')
    which = range(n) if n <= (300 if thorough else 120) else rng.sample(range(n), 300 if thorough else 120)
    for k in which:
        call(list, members[k].upset())
        call(list, members[k].downset())
    if n <= (40 if thorough else 20):
        for a in range(n):
            for b in range(a, n):
                call(list, lat.upset_union([members[a], members[b]]))
                call(list, lat.downset_union((members[b], members[a])))
    for _ in range(100 if thorough else 40):
        size = rng.choice([1, 2, 2, 3, 3, 4, 6])
        ms = [members[rng.randrange(n)] for _ in range(size)]
        if rng.random() < .5:
            ms.append(rng.choice(ms))
        if rng.random() < .5:
            nb = list(ms[0].upper_neighbors) + list(ms[0].lower_neighbors)
            if nb:
                ms.append(rng.choice(nb))
        form = rng.randrange(3)
        arg = ms if form == 0 else (iter(list(ms)) if form == 1 else set(ms))
        call(list, lat.upset_union(arg))
        arg = ms if form == 0 else ((c for c in list(ms)) if form == 1 else set(ms))
        call(list, lat.downset_union(arg))
    import collections as _c
    for t in range(6):                  # one collection object handed to several calls, never edited by the driver
        ms = [members[rng.randrange(n)] for _ in range(rng.randint(1, 4))]
        if t % 2 == 0:
            ms += [members[0], members[-1]][:1 + t % 3]
        coll = [set, frozenset, lambda x: dict.fromkeys(x).keys(), _c.deque, list, lambda x: dict.fromkeys(x)][t % 6](ms)
        common.declare(coll)
        call(list, lat.upset_union(coll))
        call(list, lat.downset_union(coll))
        call(list, lat.upset_union(coll))
        common.undeclare(coll)
    COL.count('one_collection_object_for_several_calls')
    seeds = []
    for _ in range(5):                  # one mutable seed list, edited between calls
        seeds.append(members[rng.randrange(n)])
        call(list, lat.upset_union(seeds))
        call(list, lat.downset_union(seeds))
        if len(seeds) > 2:
            seeds.pop(0)
    if n <= 400:                        # the lattice itself / its atoms as the seed collection
        call(list, lat.upset_union(lat))
        call(list, lat.downset_union(lat))
        for _ in range(3):      # iterating the seeds runs traversals / joins on the same lattice
            ms = [members[rng.randrange(n)] for _ in range(rng.randint(1, 4))]
            call(list, lat.upset_union(common.reentrant_concepts(ms, lat)))
            call(list, lat.downset_union(common.reentrant_concepts(ms, lat)))
        COL.count('reentrant_argument_collections')
        call(list, lat.upset_union(lat.atoms))
        call(list, lat.downset_union(lat.atoms))
    if n <= 2000:
        # the other traversal of the class (upset_generalization, experimental) shares the helpers: it is run to
        # its normal end - seeds that are incomparable, seeds whose extents unite to an extent - and the
        # judged traversals follow at once, on this lattice and on an older one
        for t in range(6):
            ms = [members[rng.randrange(n)] for _ in range(rng.randint(1, 3))]
            if t % 2 and len(lat.atoms) >= 2:
                ms = rng.sample(list(lat.atoms), 2)
            try:
                with core.monitor_code():
                    list(lat.upset_generalization(ms))
            except (core.CaseTimeout, core.CaseTooLarge):
                raise
            except Exception:
                COL.count('upset_generalization_raised')
            c = members[rng.randrange(n)]
            call(list, c.downset())
            call(list, c.upset())
            call(list, lat.downset_union(ms))
            call(list, lat.upset_union(ms))
        COL.count('traversals_right_after_upset_generalization')
    if len(ctx.objects) <= 12 and len(ctx.properties) <= 12 and n <= 200:
        common.interference(concepts, ctx, lat, rng, 15)
        for _ in range(8):
            c = members[rng.randrange(n)]
            call(list, c.upset())
            call(list, c.downset())
            call(list, lat.upset_union([c, members[rng.randrange(n)]]))
        COL.count('asked_again_after_interference')
    call(list, lat.upset_union([]))
    call(list, lat.downset_union(()))
    for _ in range(4):                  # abandoned traversals
        c = members[rng.randrange(n)]
        it = c.upset() if rng.random() < .5 else lat.downset_union([c, members[rng.randrange(n)]])
        for _ in range(rng.randint(0, 3)):
            next(it, None)
        del it
    # concepts that outlive every other reference to their lattice and context
    if sl.n <= 60 and len(ORPHANS) < 8:
        c2 = common.build_or_skip(concepts, case)
        l2 = common.get_lattice(c2) if c2 is not None else RAISED
        if l2 is not RAISED:
            ms = list(l2)
            if len(ms) == sl.n:
                d = sl.dindex()
                exp = []
                for _ in range(4):
                    k = rng.randrange(len(ms))
                    exp.append((k, sorted(bits(sl.up(k))), sorted(bits(sl.down(k)), key=d.__getitem__)))
                ORPHANS.append((ms, exp))
        del c2, l2
    elif len(ORPHANS) >= 8:
        import gc
        common.drop_views()
        gc.collect()
        for ms, exp in ORPHANS:
            pos = {id(c): i for i, c in enumerate(ms)}
            for k, up, down in exp:
                gu, gd = call(lambda: list(ms[k].upset())), call(lambda: list(ms[k].downset()))
                COL.count('judged_orphaned_concepts')
                if gu is RAISED or gd is RAISED:
                    COL.violation('upset', 'upset:raised-on-concepts-that-outlived-their-lattice', 'members', 'exception')
                elif [pos.get(id(c)) for c in gu] != up or [pos.get(id(c)) for c in gd] != down:
                    COL.violation('upset', 'upset:wrong-on-concepts-that-outlived-their-lattice', [up, down],
                                  [[pos.get(id(c)) for c in gu], [pos.get(id(c)) for c in gd]])
        ORPHANS.clear()
    old = POOL.older(rng)
    if old is not None:
        olat, omem = old
        call(list, rng.choice(omem).upset())
        call(list, olat.downset_union([rng.choice(omem), rng.choice(omem)]))
        COL.count('session_requeries')
    POOL.add((lat, members))
