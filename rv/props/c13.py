"""C13 - every edit history of a Definition matches the ordered-table model."""

import itertools
import random
import weakref

from .. import attach, core
from ..attach import Monitor
from ..core import COL
from ..tablemodel import TableModel, SELF
from . import common
from .common import call, RAISED

MUTATORS = ['__setitem__', 'rename_object', 'rename_property', 'move_object', 'move_property',
            'add_object', 'add_property', 'remove_object', 'remove_property',
            'remove_empty_objects', 'remove_empty_properties', 'set_object', 'set_property',
            'union_update', 'intersection_update', '__ior__', '__iand__']

META = {
    'rule': ('cases: (i) exhaustive breadth-first exploration of the REAL Definition: every '
             'reachable (object order, property order, cells) state over the name universe '
             '{a,b}x{p,q} (quick) / {a,b,c}x{p,q} (thorough), each rebuilt as a fresh '
             'Definition(*state) and subjected to every operation instance over that universe '
             '(name-list arguments: all ordered lists of <= 2 names incl. a repeat; other '
             'definitions from a fixed handful; unknown names); (ii) random histories of length '
             '30-200 over 6+6 names incl. non-ASCII, argument lists up to 5 names, random other '
             'definitions. The monitor owns one ordered-table model per live definition and '
             'follows every mutator call. After every event: triple equals the model\'s; return '
             'value equal (None / removed names in order / self); a call the model rejects must '
             'raise and leave the triple unchanged; d == Definition(*triple); bools is one row per '
             'object with one cell per property; optional internals (stale cells, Unique '
             'consistency). distinct_nontrivial = distinct (state, operation instance) transitions '
             'that change the triple.'),
    'evaluation_counters': ['judged_' + m for m in MUTATORS],
    'required_counters': ['judged_' + m for m in MUTATORS] + [
        'model_rejects_and_real_raised', 'bfs_states', 'bfs_transitions', 'random_history_steps',
        'fresh_equality_checked', 'new_names_appended_in_given_order',
        'large_history_steps'],
    'shards': {'quick': 16, 'thorough': 16},
    'exhaustive': {'quick': 'all reachable states over {a,b}x{p,q} (113) x all operation instances over that universe',
                   'thorough': 'all reachable states over {a,b,c}x{p,q} x all operation instances over that universe'},
    'assumptions': ['exception classes of rejected calls are not judged (the property says "raises")',
                    'move_* with an index outside 0..len-1, rename to the same name, one-shot '
                    'iterators as name lists are not judged'],
}

MODELS = {}     # id(definition) -> (weakref, TableModel)
INFLIGHT = set()


def model_of(d, adopt=True):
    ent = MODELS.get(id(d))
    if ent is not None and ent[0]() is d:
        return ent[1]
    if not adopt:
        return None
    m = TableModel(d.objects, d.properties, d.bools)
    set_model(d, m)
    COL.count('models_adopted')
    return m


def set_model(d, m):
    if len(MODELS) > 4000:
        for k in [k for k, (r, _) in MODELS.items() if r() is None]:
            del MODELS[k]
    try:
        MODELS[id(d)] = (weakref.ref(d), m)
    except TypeError:
        pass


def real_triple(d):
    return (tuple(d.objects), tuple(d.properties), [tuple(r) for r in d.bools])


def check_invariants(d, where, Definition):
    objects, properties, bools = real_triple(d)
    if len(bools) != len(objects) or any(len(r) != len(properties) for r in bools):
        COL.violation(where, 'state:bools-shape-differs-from-names', [len(objects), len(properties)],
                      [len(bools), [len(r) for r in bools][:6]])
    try:
        fresh = Definition(objects, properties, bools)
        COL.count('fresh_equality_checked')
        if not (d == fresh) or (d != fresh):
            COL.violation(where, 'state:differs-from-fresh-definition-built-from-own-triple',
                          'd == Definition(*d)', False, {'triple': [objects, properties, bools]})
    except Exception as e:
        COL.violation(where, 'state:own-triple-not-accepted-by-Definition', None, repr(e),
                      {'triple': [objects, properties, bools]})
    # the read API agrees with the triple: d[o, p], d[0..2], tuple(d)
    if len(objects) * len(properties) <= 30:
        try:
            cells = [tuple(bool(d[o, p]) for p in properties) for o in objects]
            parts = (tuple(d[0]), tuple(d[1]), [tuple(r) for r in d[2]])
            unpacked = tuple(d)
        except Exception as e:
            COL.violation(where, 'state:cell-or-index-lookup-raised', 'values', repr(e))
        else:
            COL.count('read_api_checked')
            if cells != bools or parts != (objects, properties, bools) or \
                    (tuple(unpacked[0]), tuple(unpacked[1]), [tuple(r) for r in unpacked[2]]) != (objects, properties, bools):
                COL.violation(where, 'state:cell-or-index-lookup-differs-from-triple', [objects, properties, bools],
                              [cells, parts])
        for o, p in (('no such object', properties[0] if properties else 'x'), (objects[0] if objects else 'x', 'no such property')):
            try:
                d[o, p]
            except KeyError:
                pass
            except Exception as e:
                COL.violation(where, 'state:unknown-cell-lookup-raised-other-than-KeyError', 'KeyError', repr(e))
            else:
                COL.violation(where, 'state:unknown-cell-lookup-returned', 'KeyError', 'a value')
    # optional internals: skipped silently when the private names are gone
    pairs = getattr(d, '_pairs', None)
    uo, up = getattr(d, '_objects', None), getattr(d, '_properties', None)
    if isinstance(pairs, set) and uo is not None and up is not None:
        COL.count('internal_invariants_checked')
        so, sp = set(objects), set(properties)
        stale = [pr for pr in pairs if pr[0] not in so or pr[1] not in sp]
        if stale:
            COL.violation(where, 'state:stale-cells-of-removed-or-renamed-names', [], stale[:6])
        for u in (uo, up):
            items, seen = getattr(u, '_items', None), getattr(u, '_seen', None)
            if isinstance(items, list) and isinstance(seen, set):
                if set(items) != seen or len(items) != len(seen):
                    COL.violation(where, 'state:Unique-order-list-and-membership-set-disagree',
                                  sorted(map(repr, seen)), items)


class MutatorMonitor(Monitor):
    def __init__(self, op, Definition):
        self.op = op
        self.Definition = Definition

    def before(self, args, kwargs):
        d = args[0]
        if id(d) in INFLIGHT:
            return None         # e.g. __ior__ -> union_update on the same receiver: judged once, outside
        INFLIGHT.add(id(d))
        model = model_of(d)
        pre = real_triple(d)
        if pre != model.triple():
            # the definition changed without an event of its own (aliasing): C14's business;
            # re-adopt so that this property judges the step itself.
            COL.count('model_resynchronised_before_call')
            model = TableModel(*pre)
            set_model(d, model)
        margs, mkwargs = list(args[1:]), dict(kwargs)
        # other definitions -> their models (snapshotted now: union_update(self, self) is legal)
        for i, a in enumerate(margs):
            if isinstance(a, self.Definition):
                margs[i] = model_of(a).copy()
        for k, a in list(mkwargs.items()):
            if isinstance(a, self.Definition):
                mkwargs[k] = model_of(a).copy()
        before_key = model.key()
        try:
            expected = model.apply(self.op, *margs, **mkwargs)
        except TypeError as e:     # wrong arity etc.
            expected = ('unspecified', repr(e))
        return d, model, pre, expected, before_key

    def _desc(self, args, kwargs):
        return {'op': self.op, 'args': [core.jsonable(a) for a in args[1:]], 'kwargs': core.jsonable(kwargs)}

    def after(self, token, args, kwargs, result):
        if token is None:
            return
        d, model, pre, expected, before_key = token
        INFLIGHT.discard(id(d))
        op = self.op
        COL.event(op, [core.jsonable(a) for a in args[1:]][:4])
        got = real_triple(d)
        if expected[0] == 'unspecified':
            COL.count('unspecified_not_judged')
            self._unspecified(d, model, pre, got, args)
            return
        COL.count('judged_' + op)
        if expected[0] == 'reject':
            COL.violation(op, f'{op}:accepted-a-call-the-model-rejects', f'raise ({expected[1]})',
                          {'returned': core.jsonable(result), 'state': got}, self._desc(args, kwargs))
            set_model(d, TableModel(*got))
            return
        want = model.triple()
        if got != want:
            mech = f'{op}:state-differs-from-model'
            if (set(got[0]), set(got[1])) == (set(want[0]), set(want[1])) and (got[0] != want[0] or got[1] != want[1]):
                mech = f'{op}:name-order-differs-from-model'
            COL.violation(op, mech, want, got, dict(self._desc(args, kwargs), before=pre))
            set_model(d, TableModel(*got))
        ret = expected[1]
        if ret is SELF:
            if result is not d:
                COL.violation(op, f'{op}:does-not-return-self', 'self', repr(result))
        elif ret is None:
            if result is not None:
                COL.violation(op, f'{op}:return-value-differs', None, core.jsonable(result))
        elif list(result) != list(ret):
            COL.violation(op, f'{op}:return-value-differs', ret, core.jsonable(result), self._desc(args, kwargs))
        check_invariants(d, op, self.Definition)
        if model.key() != before_key:
            COL.nontrivial(before_key, op, core.dumps(self._desc(args, kwargs)))
        if op in ('add_object', 'add_property', 'set_object', 'set_property') and len(args) > 2:
            try:
                newn = [x for x in args[2] if x not in (pre[1] if 'object' in op else pre[0])]
                if len(set(newn)) >= 2:
                    COL.count('new_names_appended_in_given_order')
            except TypeError:
                pass

    def _unspecified(self, d, model, pre, got, args):
        # move_* with any index: the other names keep their relative order, nothing else changes
        if self.op in ('move_object', 'move_property') and len(args) > 2:
            ax = 0 if self.op == 'move_object' else 1
            name = args[1]
            rest = [x for x in pre[ax] if x != name]
            ok = ([x for x in got[ax] if x != name] == rest and sorted(map(repr, got[ax])) == sorted(map(repr, pre[ax]))
                  and got[1 - ax] == pre[1 - ax])
            COL.count('judged_move_relative_order_only')
            if not ok:
                COL.violation(self.op, f'{self.op}:other-names-reordered-or-lost', pre[ax], got[ax])
        set_model(d, TableModel(*got))

    def raised(self, token, args, kwargs, exc):
        if token is None:
            return
        d, model, pre, expected, before_key = token
        INFLIGHT.discard(id(d))
        op = self.op
        got = real_triple(d)
        if expected[0] == 'unspecified':
            COL.count('unspecified_not_judged')
            set_model(d, TableModel(*got))
            return
        COL.count('judged_' + op)
        if expected[0] == 'ok':
            COL.violation(op, f'{op}:raised-{type(exc).__name__}-on-a-call-the-model-accepts',
                          model.triple(), repr(exc), dict(self._desc(args, kwargs), before=pre))
            set_model(d, TableModel(*got))
            return
        COL.count('model_rejects_and_real_raised')
        if got != pre:
            COL.violation(op, f'{op}:rejected-call-changed-the-definition', pre, got,
                          dict(self._desc(args, kwargs), error=repr(exc)))
            set_model(d, TableModel(*got))
        check_invariants(d, op, self.Definition)


class InitMonitor(Monitor):
    def __init__(self, Definition):
        self.Definition = Definition

    def after(self, token, args, kwargs, result):
        d = args[0]
        if not isinstance(d, self.Definition):
            return
        COL.count('definitions_created')
        model_of(d)


def setup(concepts, spec):
    D = concepts.Definition
    defs = concepts.definitions
    attach.attach(concepts.Definition, '__init__', InitMonitor(D))
    for op in MUTATORS:
        attach.attach(concepts.Definition, op, MutatorMonitor(op, D))


# ---------------------------------------------------------------------------
# workloads

def name_lists(names, extra=()):
    names = list(names)
    out = [[]]
    out += [[x] for x in names]
    out += [list(t) for t in itertools.permutations(names, 2)]
    out += [[names[0], names[0]]]
    out += [list(e) for e in extra]
    return out


def op_instances(U_o, U_p, others):
    """All operation instances over the universe: (op, args tuple, kwargs dict)."""
    inst = []
    unk_o, unk_p = 'zz', 'yy'
    first_o, first_p = U_o[0], U_p[0]
    for o in U_o:
        for p in U_p:
            for v in (True, False):
                inst.append(('__setitem__', ((o, p), v), {}))
    for old in list(U_o) + [unk_o]:
        for new in U_o:
            inst.append(('rename_object', (old, new), {}))
    for old in list(U_p) + [unk_p]:
        for new in U_p:
            inst.append(('rename_property', (old, new), {}))
    for o in list(U_o) + [unk_o]:
        for idx in range(len(U_o)):
            inst.append(('move_object', (o, idx), {}))
        inst.append(('remove_object', (o,), {}))
    for p in list(U_p) + [unk_p]:
        for idx in range(len(U_p)):
            inst.append(('move_property', (p, idx), {}))
        inst.append(('remove_property', (p,), {}))
    for o in U_o:
        inst.append(('add_object', (o,), {}))
        for lst in name_lists(U_p):
            inst.append(('add_object', (o, lst), {}))
            inst.append(('set_object', (o, tuple(lst)), {}))
    for p in U_p:
        inst.append(('add_property', (p,), {}))
        for lst in name_lists(U_o[:2] if len(U_o) > 2 else U_o, extra=[U_o[::-1]] if len(U_o) > 2 else ()):
            inst.append(('add_property', (p, tuple(lst)), {}))
            inst.append(('set_property', (p, lst), {}))
    inst.append(('remove_empty_objects', (), {}))
    inst.append(('remove_empty_properties', (), {}))
    for k in range(len(others)):
        for ign in (False, True):
            inst.append(('union_update', (('OTHER', k),), {'ignore_conflicts': ign} if ign else {}))
            inst.append(('intersection_update', (('OTHER', k), ign), {}))
        inst.append(('__ior__', (('OTHER', k),), {}))
        inst.append(('__iand__', (('OTHER', k),), {}))
    inst.append(('union_update', (('OTHER', 'self'),), {}))
    inst.append(('intersection_update', (('OTHER', 'self'),), {}))
    return inst


OTHERS = [
    ((), (), ()),
    (('a',), ('p',), [(True,)]),
    (('a',), ('p',), [(False,)]),
    (('b', 'a'), ('q', 'p'), [(True, False), (False, True)]),
    (('a', 'b'), ('p', 'q'), [(True, True), (True, True)]),
    (('b',), ('q',), [(True,)]),
    (('a', 'c'), ('q',), [(True,), (False,)]),
    (('c', 'b', 'a'), ('q', 'p'), [(False, True), (True, True), (False, False)]),
]


def cases(tier, seed, spec):
    # BFS is sequential in nature: each shard explores the whole state graph but only
    # *drives the operations* of its own slice of operation instances (states are cheap).
    n = 16
    for k in range(n):
        yield {'kind': 'bfs', 'slice': k, 'of': n, 'universe': 'abc' if tier == 'thorough' else 'ab'}
    for k in range(n):          # the same exploration with multi-character names (distinct str objects per call)
        yield {'kind': 'bfs', 'slice': k, 'of': n, 'universe': 'ab', 'long_names': True}
    for k in range(n):          # ... and with a label that names an object AND a property (relation-style tables)
        yield {'kind': 'bfs', 'slice': k, 'of': n, 'universe': 'ab', 'shared_names': True}
    for k in range(400 if tier == 'quick' else 6000):
        yield {'kind': 'random', 'n': k}
    for k in range(48 if tier == 'quick' else 600):
        yield {'kind': 'large', 'n': k}


def _materialise(D, args, others_real, d):
    out = []
    for a in args:
        if isinstance(a, tuple) and len(a) == 2 and a[0] == 'OTHER':
            out.append(d if a[1] == 'self' else D(*others_real[a[1]]))
        else:
            out.append(a)
    return out


def fresh(x):
    """An equal but distinct str object (names read from files/JSON are never the identical object)."""
    if isinstance(x, str) and len(x) > 1:
        return (x + '\0')[:-1]
    if isinstance(x, tuple):
        return tuple(fresh(v) for v in x)
    if isinstance(x, list):
        return [fresh(v) for v in x]
    return x


def apply_op(d, op, args, kwargs):
    args = [fresh(a) for a in args]
    if op == '__setitem__':
        return call(d.__setitem__, *args)
    if op == '__ior__':
        return call(d.__ior__, *args)
    if op == '__iand__':
        return call(d.__iand__, *args)
    return call(getattr(d, op), *args, **kwargs)


def run_bfs(concepts, case, spec):
    D = concepts.Definition
    U_o, U_p = list(case['universe']), ['p', 'q']
    if case.get('long_names'):
        U_o, U_p = ['obj-' + x for x in U_o], ['prop-' + x for x in U_p]
    others = OTHERS[:6] if case['universe'] == 'ab' else OTHERS
    if case.get('long_names'):
        ren = {'a': 'obj-a', 'b': 'obj-b', 'c': 'obj-c', 'p': 'prop-p', 'q': 'prop-q'}
        others = [(tuple(ren[x] for x in o), tuple(ren[x] for x in p), b) for o, p, b in others]
    if case.get('shared_names'):
        ren = {'a': 'a', 'b': 'b', 'c': 'c', 'p': 'a', 'q': 'q'}
        U_p = ['a', 'q']
        others = [(tuple(o), tuple(ren[x] for x in p), b) for o, p, b in others]
        COL.count('bfs_with_a_label_on_both_axes')
    inst = op_instances(U_o, U_p, others)
    start = ((), (), ())
    seen = {TableModel(*start).key(): start}
    frontier = [start]
    n_trans = 0
    while frontier:
        nxt = []
        for state in frontier:
            # the model (not the code under test) explores the graph: cheap and complete
            for k, (op, args, kwargs) in enumerate(inst):
                m = TableModel(*state)
                margs = [(m.copy() if a[1] == 'self' else TableModel(*others[a[1]]))
                         if isinstance(a, tuple) and len(a) == 2 and a[0] == 'OTHER' else a for a in args]
                res = m.apply(op, *margs, **kwargs)
                if res[0] == 'ok' and m.key() not in seen:
                    t = m.triple()
                    seen[m.key()] = t
                    nxt.append(t)
                if k % case['of'] != case['slice']:
                    continue
                # drive the REAL object from a fresh definition of this state
                d = call(D, *state)
                if d is RAISED:
                    COL.violation('driver', 'bfs:state-not-constructible', state, 'Definition(*state) raised')
                    continue
                apply_op(d, op, _materialise(D, args, others, d), kwargs)
                n_trans += 1
                # follow-up step on the same object: residue of the first step shows up here
                if n_trans % 3 == 0:
                    op2, args2, kwargs2 = inst[(k * 7 + n_trans) % len(inst)]
                    apply_op(d, op2, _materialise(D, args2, others, d), kwargs2)
        frontier = nxt
    if case['slice'] == 0:
        COL.count('bfs_states', len(seen))
        COL.sample({'bfs_universe': [U_o, U_p], 'states': len(seen), 'operation_instances': len(inst),
                    'example_instances': [core.jsonable(i) for i in inst[::37]][:8]})
    COL.count('bfs_transitions', n_trans)


NAMES_O = ['o1', 'o2', '', 'ö4', '0', 'объект']
NAMES_P = ['p1', '', 'p3', 'π4', 'False', 'свойство']


def random_definition(D, rng, names_o, names_p):
    o = rng.sample(names_o, rng.randint(0, len(names_o)))
    p = rng.sample(names_p, rng.randint(0, len(names_p)))
    bools = [tuple(rng.random() < .5 for _ in p) for _ in o]
    return D(o, p, bools)


def run_random(concepts, case, spec):
    D = concepts.Definition
    rng = random.Random(f"{spec['seed']}/c13/{case['n']}")
    names_o, names_p = NAMES_O, NAMES_P
    if case['n'] % 3 == 2:          # relation-style: most labels name an object and a property
        names_o, names_p = NAMES_O[:4] + ['x', 'y'], NAMES_O[:3] + ['y', 'z', 'p1']
        COL.count('random_histories_with_labels_on_both_axes')
    d = random_definition(D, rng, names_o, names_p)
    others = [random_definition(D, rng, names_o, names_p) for _ in range(3)]
    length = rng.randint(30, 200)
    history = []
    root, forks = d, []
    forking = case['n'] % 2 == 1        # every other history branches: copies / combinations keep being edited
    for step in range(length):
        if forking:
            if rng.random() < .08:
                src = rng.choice([root] + forks)
                o = rng.choice(others)
                how = rng.randrange(11)
                so_ = rng.sample(list(src.objects), rng.randint(0, len(src.objects)))
                sp_ = rng.sample(list(src.properties), rng.randint(0, len(src.properties)))
                f = call([lambda: src.copy(), lambda: src.union(o, ignore_conflicts=True),
                          lambda: src.intersection(o, ignore_conflicts=True), lambda: src.take(),
                          lambda: D(*src), lambda: src.take(list(src.objects), list(src.properties), reorder=True),
                          # sub-tables as starting points of further edits: empty selections (documented), partial ones
                          lambda: src.take([]), lambda: src.take(None, []), lambda: src.take([], []),
                          lambda: src.take(so_, sp_), lambda: src.take(so_ or None, sp_ or None, reorder=True)][how])
                if how >= 6:
                    COL.count('history_forks_from_sub_tables')
                # several derivatives of the same source taken at the same moment (snapshots before a risky
                # edit, one per reader): all of them stay tracked, whoever is edited next
                if rng.random() < .4:
                    for _ in range(rng.randint(1, 2)):
                        g = call(rng.choice([src.copy, src.copy, src.take, lambda: D(*src)]))
                        if g is not RAISED and isinstance(g, D):
                            with core.monitor_code():
                                model_of(g)
                            forks.append(g)
                            COL.count('history_forks_siblings_of_one_source')
                if f is not RAISED and isinstance(f, D):
                    with core.monitor_code():
                        model_of(f)             # adopted at birth: later edits of its source must not reach it
                    forks.append(f)
                    while len(forks) > 5:
                        forks.pop(0)
                    COL.count('history_forks')
                    history.append(('fork', how))
                    if rng.random() < .6:
                        # both sides now use the names they had in common, in turn: a rename / move /
                        # removal on one side, then the old and the new name on the other side
                        a, b = (src, f) if rng.random() < .5 else (f, src)
                        ax = rng.choice(['object', 'property'])
                        names = list(a.objects if ax == 'object' else a.properties)
                        if names:
                            x = rng.choice(names)
                            if rng.random() < .3:
                                apply_op(a, f'move_{ax}', [x, 0], {})
                            apply_op(a, f'rename_{ax}', [x, x + "'"], {})
                            apply_op(b, f'move_{ax}', [x, rng.randrange(len(names))], {})
                            apply_op(b, f'rename_{ax}', [x + "'", x + "''"], {})
                            apply_op(b, f'move_{ax}', [x + "'", 0], {})
                            apply_op(b, f'rename_{ax}', [x, x + '*'], {})
                            apply_op(a, f'move_{ax}', [x + "'", 0], {})
                            apply_op(a, f'remove_{ax}', [x + "'"], {})
                            apply_op(b, f'remove_{ax}', [x + '*'], {})
                            history.append(('both-sides-in-turn', ax, x))
                            COL.count('forks_followed_by_edits_on_both_sides')
            d = rng.choice([root] + forks) if forks and rng.random() < .6 else root
        op = rng.choice(MUTATORS)
        pick_o = lambda: rng.choice(names_o + ['unknown'] if rng.random() < .1 else (list(d.objects) or names_o))
        pick_p = lambda: rng.choice(names_p + ['unknown'] if rng.random() < .1 else (list(d.properties) or names_p))
        lst_o = lambda: [rng.choice(names_o) for _ in range(rng.randint(0, 5))]
        lst_p = lambda: [rng.choice(names_p) for _ in range(rng.randint(0, 5))]
        kwargs = {}
        if op == '__setitem__':
            args = ((rng.choice(names_o), rng.choice(names_p)), rng.random() < .6)
        elif op == 'rename_object':
            args = (pick_o(), rng.choice(names_o + ['renamed']))
        elif op == 'rename_property':
            args = (pick_p(), rng.choice(names_p + ['renamed']))
        elif op == 'move_object':
            args = (pick_o(), rng.randint(-1, len(d.objects) + 1) if rng.random() < .2 else rng.randrange(max(1, len(d.objects))))
        elif op == 'move_property':
            args = (pick_p(), rng.randrange(max(1, len(d.properties))))
        elif op in ('add_object', 'set_object'):
            args = (rng.choice(names_o), tuple(lst_p()) if rng.random() < .5 else lst_p())
            if rng.random() < .2:
                args = (args[0], dict.fromkeys(args[1]).keys())
            if op == 'add_object' and rng.random() < .2:
                args = args[:1]
        elif op in ('add_property', 'set_property'):
            args = (rng.choice(names_p), lst_o())
        elif op == 'remove_object':
            args = (pick_o(),)
        elif op == 'remove_property':
            args = (pick_p(),)
        elif op in ('remove_empty_objects', 'remove_empty_properties'):
            args = ()
        else:
            other = rng.choice(others + [d]) if rng.random() < .9 else random_definition(D, rng, names_o, names_p)
            args = (other,)
            if op in ('union_update', 'intersection_update') and rng.random() < .5:
                kwargs = {'ignore_conflicts': True}
        history.append((op, core.jsonable(args)))
        apply_op(d, op, list(args), kwargs)
        if forks:
            with core.monitor_code():
                for x in [root] + forks:
                    if x is d:
                        continue
                    m = model_of(x, adopt=False)
                    COL.count('bystanders_compared_after_a_step')
                    if m is not None and real_triple(x) != m.triple():
                        COL.violation('history', 'history:definition-changed-by-an-edit-of-another-one',
                                      list(m.triple()), list(real_triple(x)),
                                      {'history_tail': history[-8:]})
                        set_model(x, TableModel(x.objects, x.properties, x.bools))
        if rng.random() < .05:     # edit one of the others too (they stay live and tracked)
            o = rng.choice(others)
            call(o.__setitem__, (rng.choice(names_o), rng.choice(names_p)), rng.random() < .5)
    COL.count('random_history_steps', length)
    COL.sample({'random_history_prefix': history[:12], 'length': length})


def run_large(concepts, case, spec):
    """Long axes (70-420 names): bulk removals, moves, renames, re-additions - thresholds
    inside the ordered-set helper only show beyond a few dozen / a few hundred names."""
    D = concepts.Definition
    rng = random.Random(f"{spec['seed']}/c13large/{case['n']}")
    no, np_ = rng.choice([(70, 6), (140, 9), (300, 5), (420, 4), (8, 280), (5, 90), (1100, 3), (3, 2100), (2600, 2)])
    objs = [f'o{i:03d}' for i in range(no)]
    props = [f'p{j:03d}' for j in range(np_)]
    dens = rng.choice([.3, .3, .002])        # also very sparse tables (remove_empty_* has much to remove)
    d = D(objs, props, [tuple(rng.random() < dens for _ in props) for _ in objs])
    keep_o = rng.sample(objs, max(2, no // rng.choice([2, 5, 20])))
    keep_p = rng.sample(props, max(2, np_ // rng.choice([1, 2, 5])))
    other = D(keep_o + ['extra1', 'extra2'], keep_p + ['pextra'],
              [tuple(bool(d[o, p]) if o in objs and p in props else False for p in keep_p + ['pextra'])
               for o in keep_o + ['extra1', 'extra2']])
    steps = 0
    for round_ in range(3):
        for _ in range(12):
            op = rng.randrange(9)
            ax_o = list(d.objects) or objs[:1]
            ax_p = list(d.properties) or props[:1]
            if op == 0:
                apply_op(d, 'move_object', [rng.choice(ax_o), rng.randrange(len(ax_o))], {})
            elif op == 1:
                apply_op(d, 'move_property', [rng.choice(ax_p), rng.randrange(len(ax_p))], {})
            elif op == 2:
                apply_op(d, 'rename_object', [rng.choice(ax_o), f'renamed{steps}'], {})
            elif op == 3:
                apply_op(d, 'rename_property', [rng.choice(ax_p), f'prenamed{steps}'], {})
            elif op == 4:
                apply_op(d, 'remove_object', [rng.choice(ax_o)], {})
            elif op == 5:
                apply_op(d, '__setitem__', [(rng.choice(objs), rng.choice(props)), rng.random() < .5], {})
            elif op == 6:
                names = rng.sample(props, min(len(props), 3)) + [f'new{steps}a', f'new{steps}b']
                arg = names if steps % 3 else (dict.fromkeys(names).keys() if steps % 2 else dict.fromkeys(names))
                apply_op(d, rng.choice(['add_object', 'set_object']), [rng.choice(objs), arg], {})
            elif op == 7:
                names = rng.sample(objs, min(len(objs), 4)) + [f'onew{steps}a', f'onew{steps}b']
                arg = tuple(names) if steps % 3 else dict.fromkeys(names).keys()
                apply_op(d, rng.choice(['add_property', 'set_property']), [rng.choice(props), arg], {})
            else:
                apply_op(d, rng.choice(['remove_empty_objects', 'remove_empty_properties']), [], {})
            steps += 1
        # a bulk step that drops many names at once, then names are re-added
        bulk = rng.randrange(3)
        if bulk == 0:
            apply_op(d, 'intersection_update', [other], {'ignore_conflicts': True})
        elif bulk == 1:
            apply_op(d, '__iand__', [other], {})
        else:
            apply_op(d, 'union_update', [other], {'ignore_conflicts': True})
        for name in rng.sample(objs, min(len(objs), 6)):
            apply_op(d, 'add_object', [name, rng.sample(props, min(len(props), 2))], {})
        for name in rng.sample(props, min(len(props), 3)):
            apply_op(d, '__setitem__', [(rng.choice(objs), name), True], {})
        steps += 10
    COL.count('large_history_steps', steps)


def run_case(concepts, case, spec):
    INFLIGHT.clear()
    if case['kind'] == 'large':
        return run_large(concepts, case, spec)
    if case['kind'] == 'bfs':
        run_bfs(concepts, case, spec)
    else:
        run_random(concepts, case, spec)
