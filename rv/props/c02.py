"""C02 - concept lookup returns the least formal concept containing the query."""

from .. import attach, gen, core
from ..attach import Monitor
from ..core import COL
from ..shadow import bits
from . import common
from .common import call, RAISED

CAP = {'quick': 1500, 'thorough': 3000}

META = {
    'rule': ('cases: the standard context stream (EXH 3x3, random, structured+decorated, wide) and one Boolean lattice of 16 384 concepts (thorough: 32 768). '
             'Per table: Context.__getitem__ on all/sampled non-empty object and property keys '
             '(label and raw form, disguised containers, results fed back for idempotence); '
             'Lattice.__getitem__ with label keys, every int index, negative indexes, slices and (); '
             'Lattice.__call__ with property sets incl. the empty one. Oracle: (A\'\',A\') resp. '
             '(B\',B\'\') from the shadow, concept-hood, containment of the query, leastness by '
             'scanning the shadow concept list, identity of the returned member; per-receiver trace '
             'rules extensive/monotone/idempotent. distinct_nontrivial = distinct (table, axis, key) '
             'whose closure strictly contains the key.'),
    'evaluation_counters': ['judged_ctx_getitem', 'judged_lat_getitem', 'judged_lat_call'],
    'required_counters': ['judged_ctx_getitem', 'judged_lat_getitem', 'judged_lat_call',
                          'judged_lat_int', 'judged_lat_slice', 'judged_lat_empty_key',
                          'judged_leastness_by_scan', 'trace_monotone_pairs', 'judged_raw'],
    'shards': {'quick': 16, 'thorough': 16},
    'exhaustive': {'quick': 'all 682 tables <= 3x3 x all non-empty keys of both axes',
                   'thorough': 'all tables <= 3x3, 3x4, 4x3, 4x4 x all non-empty keys'},
    'assumptions': ['empty key for Context.__getitem__, unknown or mixed keys are out of scope',
                    'raw results are decoded through members()'],
}

TRACE = {}     # id(ctx) -> list of (axis, keymask, extent, intent)


def _expected(sh, labels):
    """(axis, keymask, extent, intent) or None if out of scope."""
    if not labels:
        return None
    try:
        if all(l in sh.oidx for l in labels):
            k = sh.omask(labels)
            e, i = sh.closure_o(k)
            return 'o', k, e, i
        if all(l in sh.pidx for l in labels):
            k = sh.pmask(labels)
            e, i = sh.closure_p(k)
            return 'p', k, e, i
    except TypeError:
        return None
    return None


def _leastness_by_scan(sh, axis, key, e, i, cap):
    """Among all shadow concepts containing the key, (e, i) must be the least."""
    sl = sh.lattice(cap)
    if sl.n > 400:
        return None
    if axis == 'o':
        cont = [k for k in range(sl.n) if sl.extents[k] & key == key]
        return all(sl.extents[k] & e == e for k in cont) and e in sl.index_of
    cont = [k for k in range(sl.n) if sl.intents[k] & key == key]
    return all(sl.intents[k] & i == i for k in cont) and e in sl.index_of


class CtxGetitem(Monitor):

    def __init__(self, cap):
        self.cap = cap

    def before(self, args, kwargs):
        arg = common.get_arg(args, kwargs, 1, 'items')
        try:
            if iter(arg) is arg:
                # not a "collection": the objects-then-properties fallback of the real
                # code reads the key twice, so a one-shot iterator of property labels
                # yields the closure of the empty set.  Outside the property (DESIGN §5).
                COL.count('out_of_scope_one_shot_key')
                return None
        except TypeError:
            return None
        labels, a2, k2 = common.read_iterable(args, kwargs, 1, 'items')
        if labels is None:
            return None
        raw = bool(common.get_arg(args, kwargs, 2, 'raw', False))
        return attach.Args((args[0], labels, raw), a2, k2)

    def after(self, token, args, kwargs, result):
        if token is None:
            return
        ctx, labels, raw = token
        sh = attach.shadow_of(ctx)
        exp = _expected(sh, labels)
        if exp is None:
            COL.count('out_of_scope_key')
            return
        axis, key, e, i = exp
        COL.count('judged_ctx_getitem')
        COL.event('ctx[]', labels[:10], raw)
        want = (sh.olabels(e), sh.plabels(i))
        try:
            r_ext, r_int = result
            if raw:
                COL.count('judged_raw')
                got = (tuple(r_ext.members()), tuple(r_int.members()))
            else:
                got = (tuple(r_ext), tuple(r_int))
        except Exception as ex:
            COL.violation('Context.__getitem__', 'ctx-getitem:result-not-a-pair', want, repr(ex))
            return
        if got != want:
            COL.violation('Context.__getitem__', 'ctx-getitem:not-the-closure', want, got,
                          {'key': labels, 'axis': axis})
            return
        # the properties of the statement, checked on the *observed* pair
        try:
            ge, gi = sh.omask(got[0]), sh.pmask(got[1])
        except KeyError:
            return
        if not sh.is_concept(ge, gi):
            COL.violation('Context.__getitem__', 'ctx-getitem:not-a-concept', want, got)
        if (axis == 'o' and ge & key != key) or (axis == 'p' and gi & key != key):
            COL.violation('Context.__getitem__', 'ctx-getitem:query-not-contained', want, got)
        if sh.n <= 9 and sh.m <= 9:
            least = _leastness_by_scan(sh, axis, key, ge, gi, self.cap)
            if least is not None:
                COL.count('judged_leastness_by_scan')
                if not least:
                    COL.violation('Context.__getitem__', 'ctx-getitem:not-least', want, got)
        if (axis == 'o' and e != key) or (axis == 'p' and i != key):
            COL.nontrivial(sh.key(), axis, key)
        log = TRACE.setdefault(id(ctx), [])
        if len(log) < 120:
            log.append((axis, key, ge, gi))

    def raised(self, token, args, kwargs, exc):
        if token is None:
            return
        ctx, labels, raw = token
        sh = attach.shadow_of(ctx)
        exp = _expected(sh, labels)
        if exp is None:
            COL.count('out_of_scope_key')
            return
        COL.count('judged_ctx_getitem')
        COL.violation('Context.__getitem__', f'ctx-getitem:raised-{type(exc).__name__}',
                      'a concept', repr(exc), {'key': labels})


def flush_trace():
    """Per-receiver trace rules: extensive, monotone, idempotent."""
    for log in TRACE.values():
        for axis in 'op':
            evs = [(k, e, i) for a, k, e, i in log if a == axis]
            side = (lambda e, i: e) if axis == 'o' else (lambda e, i: i)
            closed = {k: side(e, i) for k, e, i in evs}
            pairs = 0
            for ka, ca in closed.items():
                if ca & ka != ka:
                    COL.violation('trace', 'trace:closure-not-extensive', None, [ka, ca])
                if ca in closed:
                    COL.count('trace_idempotence_checked')
                    if closed[ca] != ca:
                        COL.violation('trace', 'trace:closure-not-idempotent', ca, closed[ca])
                for kb, cb in closed.items():
                    if ka & kb == ka and pairs < 2000:
                        pairs += 1
                        if ca & cb != ca:
                            COL.violation('trace', 'trace:closure-not-monotone', None,
                                          [ka, ca, kb, cb])
            COL.count('trace_monotone_pairs', pairs)
    TRACE.clear()


class LatGetitem(Monitor):

    def __init__(self, cap):
        self.cap = cap

    def before(self, args, kwargs):
        key = common.get_arg(args, kwargs, 1, 'key')
        if isinstance(key, (int, slice)):
            return args[0], key, None
        labels, a2, k2 = common.read_iterable(args, kwargs, 1, 'key')
        if labels is None:
            return None
        return attach.Args((args[0], key, labels), a2, k2)

    def after(self, token, args, kwargs, result):
        if token is None:
            return
        lat, key, labels = token
        view = common.view_of(lat, self.cap)
        sh = view.sh
        if isinstance(key, bool):
            COL.count('out_of_scope_key')
            return
        if isinstance(key, int):
            COL.count('judged_lat_getitem')
            COL.count('judged_lat_int')
            if result is not view.members[key]:
                COL.violation('Lattice.__getitem__', 'lat-getitem:int-index-not-ith-member',
                              repr(view.members[key]), repr(result), {'key': key})
            return
        if isinstance(key, slice):
            COL.count('judged_lat_getitem')
            COL.count('judged_lat_slice')
            want = view.members[key]
            ok = (isinstance(result, (list, tuple)) and len(result) == len(want)
                  and all(a is b for a, b in zip(result, want)))
            if not ok:
                COL.violation('Lattice.__getitem__', 'lat-getitem:slice-differs',
                              [repr(c) for c in want], repr(result), {'key': repr(key)})
            return
        if not labels:
            COL.count('judged_lat_getitem')
            COL.count('judged_lat_empty_key')
            k = view.real_of.get(view.sl.index_of.get(sh.ALLO))
            if k is None:
                COL.count('member_missing_skipped')
            elif result is not view.members[k]:
                COL.violation('Lattice.__getitem__', 'lat-getitem:empty-key-not-top',
                              repr(view.members[k]), repr(result))
            return
        exp = _expected(sh, labels)
        if exp is None:
            COL.count('out_of_scope_key')
            return
        axis, kmask, e, i = exp
        COL.count('judged_lat_getitem')
        COL.event('lat[]', labels[:10])
        k = view.real_of.get(view.sl.index_of.get(e))
        if k is None:
            COL.count('member_missing_skipped')
            return
        if result is not view.members[k]:
            COL.violation('Lattice.__getitem__', 'lat-getitem:not-the-member',
                          repr(view.members[k]), repr(result), {'key': labels})
        if (axis == 'o' and e != kmask) or (axis == 'p' and i != kmask):
            COL.nontrivial(sh.key(), 'L' + axis, kmask)

    def raised(self, token, args, kwargs, exc):
        if token is None:
            return
        lat, key, labels = token
        if isinstance(key, (int, slice)):
            if isinstance(exc, IndexError):
                COL.count('out_of_scope_key')
                return
            COL.count('judged_lat_getitem')
            COL.violation('Lattice.__getitem__', f'lat-getitem:int-raised-{type(exc).__name__}',
                          'a member', repr(exc), {'key': repr(key)})
            return
        view = common.view_of(lat, self.cap)
        if labels and _expected(view.sh, labels) is None:
            COL.count('out_of_scope_key')
            return
        COL.count('judged_lat_getitem')
        COL.violation('Lattice.__getitem__', f'lat-getitem:raised-{type(exc).__name__}',
                      'a member', repr(exc), {'key': labels})


class LatCall(Monitor):

    def __init__(self, cap):
        self.cap = cap

    def before(self, args, kwargs):
        labels, a2, k2 = common.read_iterable(args, kwargs, 1, 'properties')
        if labels is None:
            return None
        return attach.Args((args[0], labels), a2, k2)

    def _scope(self, token):
        lat, labels = token
        view = common.view_of(lat, self.cap)
        sh = view.sh
        try:
            if not all(l in sh.pidx for l in labels):
                return None
        except TypeError:
            return None
        return view, sh, sh.pmask(labels)

    def after(self, token, args, kwargs, result):
        if token is None:
            return
        sc = self._scope(token)
        if sc is None:
            COL.count('out_of_scope_key')
            return
        view, sh, kmask = sc
        COL.count('judged_lat_call')
        if not kmask:
            COL.count('judged_lat_call_empty')
        e, i = sh.closure_p(kmask)
        k = view.real_of.get(view.sl.index_of.get(e))
        if k is None:
            COL.count('member_missing_skipped')
            return
        if result is not view.members[k]:
            COL.violation('Lattice.__call__', 'lat-call:not-the-member',
                          repr(view.members[k]), repr(result), {'properties': token[1]})
        if i != kmask:
            COL.nontrivial(sh.key(), 'Lc', kmask)

    def raised(self, token, args, kwargs, exc):
        if token is None:
            return
        if self._scope(token) is None:
            COL.count('out_of_scope_key')
            return
        COL.count('judged_lat_call')
        COL.violation('Lattice.__call__', f'lat-call:raised-{type(exc).__name__}',
                      'a member', repr(exc), {'properties': token[1]})


class _MyInt(int):
    """A user subclass of int (what numpy-free numeric code or an ORM hands out)."""


import enum as _enum


class _Level(_enum.IntEnum):
    L0 = 0
    L1 = 1
    L2 = 2


def setup(concepts, spec):
    from .. import probes
    probes.install(['prime'])
    cap = CAP[spec['tier']]
    attach.attach_ctor(concepts)
    attach.attach(concepts.Context, '__getitem__', CtxGetitem(cap))
    attach.attach(concepts.lattices.Lattice, '__getitem__', LatGetitem(cap))
    attach.attach(concepts.lattices.Lattice, '__call__', LatCall(cap))
    global POOL
    POOL = common.Pool(5)


def cases(tier, seed, spec):
    yield from gen.biglat(tier, sizes=(15,), quick_sizes=(14,))
    yield from gen.ctx_stream(tier, seed, with_huge=True)


def run_case(concepts, case, spec):
    rng = common.rng_for(case, spec)
    ctx = common.build_or_skip(concepts, case)
    if ctx is None:
        return
    sh = attach.shadow_of(ctx)
    huge = case['fam'].startswith('HUGE')
    if case['fam'].startswith('BIGLAT'):
        sh.cap_override = 70000
        COL.count('biglat_cases')
    if not huge:
        sh.lattice(CAP[spec['tier']])     # too large => case skipped before any work
    COL.sample({'table': case, 'calls': 'ctx[key], lattice[key], lattice(properties), lattice[i]'})
    budget = 400 if spec['tier'] == 'thorough' else 140
    keys = []
    for axis_items in (ctx.objects, ctx.properties):
        k = 0
        for sub in gen.subsets_of(axis_items, rng, all_below=7, sampled=25):
            if not sub:
                continue
            k += 1
            if k > budget:
                break
            keys.append(sub)
            r = call(ctx.__getitem__, tuple(sub))
            if k % 3 == 1 and all(isinstance(x, str) and len(x) == 1 for x in sub):
                call(ctx.__getitem__, ''.join(sub))      # a str is a collection of its characters
                COL.count('str_keys')
            if k % 3 == 0:
                call(ctx.__getitem__, gen.disguise(sub, rng), True)
            if k % 5 == 2 and len(sub) <= 6 and len(ctx.objects) <= 400 and len(ctx.properties) <= 400:
                call(ctx.__getitem__, common.reentrant_labels(sub, ctx))     # iterating the key queries the context
                COL.count('reentrant_keys')
            if k % 4 == 0 and r is not RAISED:
                try:   # feed the result back (idempotence on both sides)
                    if r[0]:
                        call(ctx.__getitem__, r[0])
                    if r[1]:
                        call(ctx.__getitem__, r[1])
                except Exception:
                    pass
    if huge:        # thousands of members on one axis: lookups only (Lindig over 6 000 atoms is slow)
        COL.count('huge_axis_cases')
        flush_trace()
        return
    lat = common.get_lattice(ctx)
    if lat is RAISED:
        COL.count('lattice_construction_raised')
        flush_trace()
        return
    # the caller reuses one mutable key object, editing it between consecutive look-ups
    for items in (list(ctx.objects), list(ctx.properties)):
        key = rng.sample(items, rng.randint(1, min(len(items), 3)))
        for _ in range(4):
            call(ctx.__getitem__, key)
            call(lat.__getitem__, key)
            if len(key) > 1 and rng.random() < .5:
                key.pop(rng.randrange(len(key)))
            else:
                key.append(rng.choice(items))
        ks = set(key)
        call(ctx.__getitem__, ks)
        ks.add(rng.choice(items))
        call(ctx.__getitem__, ks)
        COL.count('mutated_key_sequences')
    n = call(len, lat)
    for sub in keys[::2]:
        call(lat.__getitem__, tuple(sub))
        if all(isinstance(x, str) and len(x) == 1 for x in sub):
            call(lat.__getitem__, ''.join(sub))
        if all(x in sh.pidx for x in sub):
            call(lat, sub if rng.random() < .5 else gen.disguise(sub, rng))
    call(lat, ())
    call(lat, [])
    call(lat.__getitem__, ())
    if n is not RAISED:
        for i in list(range(min(n, 40))) + [-1, -min(n, 3), n - 1]:
            call(lat.__getitem__, i)
        # integers that are not exactly ``int``: an IntEnum member, an instance of a user subclass
        for i in (0, 1 % n, n - 1, -1):
            call(lat.__getitem__, _MyInt(i))
        for lvl in _Level:
            if lvl < n:
                call(lat.__getitem__, lvl)
        COL.count('int_subclass_indexes')
        call(lat.__getitem__, slice(0, min(n, 5)))
        call(lat.__getitem__, slice(None, None, 2))
        call(lat.__getitem__, slice(-2, None))
        call(lat.__getitem__, n + 3)      # IndexError: out of scope
        sl_ = call(lat.__getitem__, slice(0, min(n, 4)))
        if sl_ is not RAISED and isinstance(sl_, list):
            sl_.reverse()                 # the caller owns the returned list
            sl_.clear()
            call(lat.__getitem__, slice(0, min(n, 4)))
            call(lat.__getitem__, 0)
    for sub in rng.sample(keys, min(len(keys), 15)):     # the same questions again, later
        call(ctx.__getitem__, list(reversed(sub)))
        call(lat.__getitem__, tuple(sub))
    if False:
        pass
    if hash(gen.table_key(case)) % 12 == 0:
        def queries(c):
            for sub in (list(c.objects[:1]), list(c.objects[-2:]), list(c.properties[:1]), list(c.properties)):
                call(c.__getitem__, tuple(sub))
            l_ = common.get_lattice(c)
            if l_ is not RAISED:
                call(l_.__getitem__, tuple(c.objects[:1]))
                call(l_, list(c.properties[:1]))
        common.registry_history(concepts, case, rng, queries)
    if len(ctx.objects) <= 12 and len(ctx.properties) <= 12:
        common.interference(concepts, ctx, lat, rng, 15)
        for sub in rng.sample(keys, min(len(keys), 10)):
            call(ctx.__getitem__, tuple(sub))
            call(lat.__getitem__, tuple(sub))
            if all(x in sh.pidx for x in sub):
                call(lat, list(sub))
        COL.count('asked_again_after_interference')
    old = POOL.older(rng)
    if old is not None:
        octx, olat = old
        sub = rng.sample(list(octx.objects), rng.randint(1, len(octx.objects)))
        call(octx.__getitem__, sub)
        call(olat.__getitem__, tuple(sub))
        COL.count('session_requeries')
    POOL.add((ctx, lat))
    flush_trace()
