"""C17 - all results are deterministic across processes and hash seeds."""

import json
import os
import subprocess
import sys

from .. import core
from ..core import COL

SESSIONS = {'quick': 480, 'thorough': 8000}
SEEDS = {'quick': ['0', '1', '31337'], 'thorough': ['0', '1', '2', '3', '99', '31337', '4294967295', 'random']}

META = {
    'rule': ('a trace corpus of independent sessions, each a fixed call sequence derived from '
             'VERIF_SEED and the session number only: contexts with multi-character/non-ASCII labels '
             'through every text format, dict and JSON text, lattice iteration with indexes, labels, '
             'atoms and neighbor orders, neighbors(), traversals and unions, join/meet, attributes, '
             'relations() and its text, DOT body, FCbO orders, error messages that list names '
             '(overlap, duplicates, conflicts, unknown names), and Definition edit histories '
             '(set_*/add_* with >= 2 new names, unions, intersections, take, rename, move). Each '
             'slice of sessions is executed in K fresh interpreter processes with different '
             'PYTHONHASHSEED (and a seed-dependent heap perturbation); an offline checker requires '
             'the K event streams to be identical event by event; the first differing event of a '
             'session is the witness. evaluations = events compared against the reference process; '
             'distinct_nontrivial = distinct sessions tagged as exercising a set of strings or of '
             'concepts inside the library.'),
    'evaluation_counters': ['events_compared'],
    'required_counters': ['events_compared', 'sessions_compared', 'processes', 'sessions_kind_0',
                          'sessions_kind_1', 'sessions_kind_2', 'sessions_kind_3'],
    'shards': {'quick': 16, 'thorough': 16},
    'assumptions': ['memory addresses in reprs are masked', 'events raising the same exception text count as equal'],
}


def setup(concepts, spec):
    pass


def cases(tier, seed, spec):
    n = SESSIONS[tier]
    per = 10 if tier == 'quick' else 50
    for first in range(0, n, per):
        yield {'first': first, 'count': min(per, n - first)}


def run_case(concepts, case, spec):
    from .. import runner
    work = spec['workdir']
    outs = {}
    for hs in SEEDS[spec['tier']]:
        out = os.path.join(work, f"c17_{case['first']}_{hs}.json")
        env = runner.child_env(work, hashseed=hs)
        p = subprocess.run([sys.executable, '-X', f'pycache_prefix={os.path.join(work, "pyc")}',
                            '-m', 'rv.child_c17', spec['repo'], str(spec['seed']), str(case['first']),
                            str(case['count']), '1', out], env=env, cwd=work, capture_output=True,
                           text=True, timeout=3000)
        COL.count('processes')
        if p.returncode != 0 or not os.path.exists(out):
            COL.harness_error(f'child failed rc={p.returncode}: {p.stderr[-600:]}')
            return
        with open(out) as f:
            outs[hs] = json.load(f)
        os.remove(out)
    ref_seed = SEEDS[spec['tier']][0]
    ref = outs[ref_seed]['streams']
    for sid, (ev, tags) in ref.items():
        COL.count('sessions_compared')
        COL.count(f'sessions_kind_{int(sid) % 4}')
        if tags and tags != ['aborted']:
            COL.nontrivial(int(sid))
        if tags == ['aborted']:
            COL.harness_error(f'session {sid} aborted: {ev[:1]}')
            continue
        for hs, o in outs.items():
            if hs == ref_seed:
                continue
            ev2 = o['streams'][sid][0]
            COL.count('events_compared', max(len(ev), len(ev2)))
            if ev2 == ev:
                continue
            k = next((i for i, (a, b) in enumerate(zip(ev, ev2)) if a != b), min(len(ev), len(ev2)))
            a = ev[k] if k < len(ev) else '<stream ended>'
            b = ev2[k] if k < len(ev2) else '<stream ended>'
            tag = a.split(' -> ')[0].split(' !! ')[0]
            tag = ''.join(ch for ch in tag.split('(')[0].split('[')[0].split('{')[0].split(' ')[0] if not ch.isdigit()).strip()
            COL.case = {'first': int(sid), 'count': 1, 'session': int(sid), 'event_index': k,
                        'hashseeds': [ref_seed, hs]}
            COL.violation('offline-stream-compare', f'determinism:{tag}', a[:600], b[:600],
                          {'session': sid, 'event_index': k, 'PYTHONHASHSEED': [ref_seed, hs]})
            break
    if case['first'] == 0:
        sid, (ev, tags) = next(iter(ref.items()))
        COL.sample({'session': sid, 'tags': tags, 'events': [e[:160] for e in ev[:8]], 'n_events': len(ev)})
