"""C01 - derivation operators are exactly the Galois connection of the table."""

from .. import attach, gen, core
from ..attach import Monitor
from ..core import COL
from ..shadow import bits
from . import common
from .common import call

META = {
    'rule': ('cases: EXH(3x3) + random + structured/decorated + wide tables; per table every '
             'subset of each axis (<= 10 members) or {}, singletons, all and 40 sampled subsets, '
             'each also re-submitted in a disguised form (shuffled, repeated, iterator, set, '
             'dict-keys) and every third one raw. An event is one monitored call of '
             'Context.intension/extension judged against the AND of the selected shadow rows/'
             'columns. distinct_nontrivial = distinct (table, axis, argument set) with >= 2 '
             'members in the argument or a result that is neither empty nor everything.'),
    'evaluation_counters': ['judged_intension', 'judged_extension'],
    'required_counters': ['judged_intension', 'judged_extension', 'judged_raw',
                          'judged_disguised', 'shadows_from_ctor', 'one_shot_arguments_rewrapped'],
    'shards': {'quick': 16, 'thorough': 16},
    'exhaustive': {'quick': 'all 682 boolean tables with <= 3 objects and <= 3 properties x all subsets of both axes',
                   'thorough': 'all boolean tables <= 3x3, 3x4, 4x3, 4x4 x all subsets of both axes'},
    'assumptions': ['bitsets result objects are decoded through their public members()/int()',
                    'unknown labels (KeyError) are out of scope'],
}


class DerivationMonitor(Monitor):

    def __init__(self, axis):
        self.axis = axis    # 'o': intension(objects) ; 'p': extension(properties)

    def before(self, args, kwargs):
        ctx = args[0]
        arg = args[1] if len(args) > 1 else kwargs.get('objects', kwargs.get('properties'))
        raw = args[2] if len(args) > 2 else kwargs.get('raw', False)
        labels, args2, kwargs2 = common.read_iterable(args, kwargs, 1, 'objects' if self.axis == 'o' else 'properties')
        if labels is None:
            return None
        return attach.Args((ctx, labels, bool(raw)), args2, kwargs2)

    def _expected(self, token):
        ctx, labels, raw = token
        sh = attach.shadow_of(ctx)
        try:
            if self.axis == 'o':
                mask = sh.omask(labels)
                res = sh.intension(mask)
                return sh, mask, res, sh.plabels(res), sh.m
            mask = sh.pmask(labels)
            res = sh.extension(mask)
            return sh, mask, res, sh.olabels(res), sh.n
        except (KeyError, TypeError):
            return None

    def after(self, token, args, kwargs, result):
        if token is None:
            return
        exp = self._expected(token)
        if exp is None:
            COL.count('out_of_scope_unknown_label')
            return
        sh, mask, res, labels, width = exp
        ctx, arg_labels, raw = token
        name = 'intension' if self.axis == 'o' else 'extension'
        COL.count('judged_' + name)
        COL.event(name, arg_labels[:12], raw)
        if raw:
            COL.count('judged_raw')
            try:
                got_labels = tuple(result.members())
                got_int = int(result)
            except Exception as e:
                COL.violation(name, f'{name}:raw-result-not-decodable', labels, repr(e))
                return
            if got_labels != labels or got_int != res:
                COL.violation(name, f'{name}:raw-result-differs-from-derivation',
                              {'labels': labels, 'int': res},
                              {'labels': got_labels, 'int': got_int},
                              {'argument': arg_labels})
        else:
            try:
                got = tuple(result)
            except Exception as e:
                COL.violation(name, f'{name}:result-not-iterable', labels, repr(e))
                return
            if got != labels:
                COL.violation(name, f'{name}:result-differs-from-derivation', labels, got,
                              {'argument': arg_labels})
        nargs = len(set(arg_labels))
        if len(arg_labels) != nargs:
            COL.count('judged_with_repeats')
        if nargs >= 2 or (res != 0 and res != (sh.ALLP if self.axis == 'o' else sh.ALLO)):
            COL.nontrivial(sh.key(), self.axis, mask)
        if mask == 0:
            COL.count('judged_empty_argument')
        # evidence: how much the zero-run skipping had to skip
        pos = bits(mask)
        gap = max((b - a for a, b in zip(pos, pos[1:])), default=0)
        axis_w = sh.n if self.axis == 'o' else sh.m
        COL.count('axis_width_' + ('le30' if axis_w <= 30 else 'le60' if axis_w <= 60 else
                                  'le64' if axis_w <= 64 else 'le128' if axis_w <= 128 else 'gt128'))
        COL.count('max_gap_' + ('0-1' if gap <= 1 else '2-8' if gap <= 8 else '9-32' if gap <= 32 else 'gt32'))

    def raised(self, token, args, kwargs, exc):
        if token is None:
            return
        exp = self._expected(token)
        if exp is None:
            COL.count('out_of_scope_unknown_label')
            return
        name = 'intension' if self.axis == 'o' else 'extension'
        COL.count('judged_' + name)
        COL.violation(name, f'{name}:raised-{type(exc).__name__}', exp[3], repr(exc),
                      {'argument': token[1]})


def setup(concepts, spec):
    from .. import probes
    probes.install(['prime'])
    attach.attach_ctor(concepts)
    attach.attach(concepts.Context, 'intension', DerivationMonitor('o'))
    attach.attach(concepts.Context, 'extension', DerivationMonitor('p'))
    global POOL
    POOL = common.Pool(6)


def cases(tier, seed, spec):
    import random as _r
    rng = _r.Random(f'{seed}/c01long')
    for k in range(2 if tier == 'quick' else 12):
        n, m = (6, 14) if k % 2 == 0 else (14, 6)
        if tier == 'thorough' and k % 3 == 2:
            n, m = (5, 15) if k % 2 else (15, 5)
        yield dict(gen.case('LONGHISTORY', gen.rnd_rows(rng, n, m, .55), m, gen.SCHEMES[k % 5], rng), long_history=True)
    yield from gen.ctx_stream(tier, seed, with_huge=True)


def _drive_axis(ctx, fn, items, rng, spec, budget):
    k = 0
    for sub in gen.subsets_of(items, rng, all_below=10 if spec['tier'] == 'thorough' else 8):
        k += 1
        if k > budget:
            break
        raw = (k % 3 == 0)
        call(fn, list(sub), raw) if raw else call(fn, list(sub))
        if k % 2 == 0:
            d = gen.disguise(sub, rng)
            call(fn, d, raw) if raw else call(fn, d)
            COL.count('judged_disguised')
        if sub and all(isinstance(x, str) and len(x) == 1 for x in sub) and k % 3 == 1:
            call(fn, ''.join(sub))          # a str is a collection of its characters
            COL.count('str_arguments')


def run_long_history(concepts, case, spec):
    """One context, every subset of its 14-15 properties and then every subset of its objects (and the
    other way round): > 16 000 distinct questions to one object, bit patterns shared by both axes."""
    rng = common.rng_for(case, spec)
    ctx = common.build_or_skip(concepts, case)
    if ctx is None:
        return
    COL.count('long_history_cases')
    objs, props = list(ctx.objects), list(ctx.properties)
    order = [(ctx.extension, props), (ctx.intension, objs)]
    if case['rows'][0] & 1:
        order.reverse()
    for fn, items in order:
        n = len(items)
        for mask in range(1 << n):
            call(fn, [items[i] for i in range(n) if mask >> i & 1], mask % 5 == 0)
    for fn, items in order:         # and a second, sampled pass in the other form
        n = len(items)
        for _ in range(300):
            mask = rng.getrandbits(n)
            call(fn, tuple(items[i] for i in range(n) if mask >> i & 1))


def run_case(concepts, case, spec):
    if case.get('long_history'):
        return run_long_history(concepts, case, spec)
    rng = common.rng_for(case, spec)
    ctx = common.build_or_skip(concepts, case)
    if ctx is None:
        return
    COL.sample({'table': case, 'example_call': 'intension/extension over all or sampled subsets'})
    budget = 1100 if spec['tier'] == 'thorough' else 300
    _drive_axis(ctx, ctx.intension, ctx.objects, rng, spec, budget)
    _drive_axis(ctx, ctx.extension, ctx.properties, rng, spec, budget)
    # the caller reuses one mutable argument object, editing it between consecutive calls
    for fn, items in ((ctx.intension, list(ctx.objects)), (ctx.extension, list(ctx.properties))):
        arg = rng.sample(items, rng.randint(0, min(len(items), 4)))
        for _ in range(4):
            call(fn, arg)
            if arg and rng.random() < .5:
                arg.pop(rng.randrange(len(arg)))
            else:
                arg.append(rng.choice(items))
            if rng.random() < .3:
                arg.reverse()
        COL.count('mutated_argument_sequences')
    # collections whose iteration itself queries the same context (a caller's filtering pipeline)
    for fn, items in ((ctx.intension, list(ctx.objects)), (ctx.extension, list(ctx.properties))):
        for _ in range(2 if len(ctx.objects) <= 400 and len(ctx.properties) <= 400 else 0):
            sub = rng.sample(items, rng.randint(1, min(len(items), 4)))
            call(fn, common.reentrant_labels(sub, ctx))
            call(fn, common.reentrant_labels(sub + sub[:1], ctx), True)
    COL.count('reentrant_argument_collections')
    if hash(gen.table_key(case)) % 12 == 0:
        def queries(c):
            for sub in ([], list(c.objects[:1]), list(c.objects[-2:]), list(c.objects)):
                call(c.intension, sub)
            for sub in ([], list(c.properties[:1]), list(c.properties)):
                call(c.extension, sub)
        common.registry_history(concepts, case, rng, queries)
    if len(ctx.objects) <= 12 and len(ctx.properties) <= 12:
        # the rest of the API is used on the same context, then the derivations are asked again
        common.interference(concepts, ctx, common.get_lattice(ctx), rng, 12)
        _drive_axis(ctx, ctx.intension, ctx.objects, rng, spec, 40)
        _drive_axis(ctx, ctx.extension, ctx.properties, rng, spec, 40)
    # session: an older live context (often with the very same labels) is queried
    # again after the new one was built: class-level state must not leak across.
    old = POOL.older(rng)
    if old is not None:
        for _ in range(3):
            k = rng.randint(0, len(old.objects))
            call(old.intension, rng.sample(list(old.objects), k))
            k = rng.randint(0, len(old.properties))
            call(old.extension, rng.sample(list(old.properties), k))
        COL.count('session_requeries')
    POOL.add(ctx)
