"""C20 - the Graphviz export is a faithful drawing of the labelled Hasse diagram."""

import re

from .. import attach, gen, core
from ..attach import Monitor
from ..core import COL
from . import common
from .common import call, RAISED

CAP = {'quick': 600, 'thorough': 1500}

META = {
    'rule': ('cases: the standard context stream (one- and two-concept lattices, decorations that '
             'put several labels on one node) plus tables with DOT-hostile labels (quotes, '
             'brackets, "->", "=", ";", spaces, non-ASCII) plus Boolean lattices of 2 048 (quick) / 1 024, 4 096, '
             '16 384 (thorough) concepts (node names with four and five digits). Events: every Lattice.graphviz() call; '
             'each table is exported twice, with recording label callbacks (opaque token returned, '
             'names remembered; also behind the shapes user callbacks come in: plain function, lambda or '
             'method with defaulted options after the names, functools.partial, keyword-only options, '
             '*args wrapper, positional-only parameter) and with the default callbacks. Oracle: an independent DOT line '
             'parser over .body: node statements are exactly c<index>, one per member; non-loop '
             'edges are exactly (c_i, c_j) for j a lower cover of i in the shadow lattice, each '
             'once; a self-loop with headlabel exists iff the member carries object labels (by '
             'the shadow\'s object concepts), with taillabel iff it carries property labels; the '
             'label text is the callback\'s token and the callback received exactly those names; '
             'default callbacks: the unquoted text equals " ".join(names). distinct_nontrivial = '
             'distinct tables with >= 1 cover edge and >= 1 labelled node.'),
    'evaluation_counters': ['judged_graphviz'],
    'required_counters': ['judged_graphviz', 'judged_with_recording_callbacks',
                          'judged_with_default_callbacks', 'one_concept_lattices',
                          'two_concept_lattices', 'nodes_with_several_labels', 'hostile_label_tables',
                          'edges_checked', 'label_texts_checked', 'judged_with_one_recording_callback',
                          'judged_with_function_method_partial_callbacks'],
    'shards': {'quick': 16, 'thorough': 16},
    'exhaustive': {'quick': 'all 682 boolean tables <= 3x3', 'thorough': 'all boolean tables <= 3x3, 3x4, 4x3, 4x4'},
    'assumptions': ['labels containing a backslash or shaped like <...> are out of scope '
                    '(escString / HTML-label semantics of the graphviz package)',
                    'the DOT text is read from Digraph.body'],
}


class Recorder:
    """Label callback that returns an opaque token and remembers its argument."""

    def __init__(self, prefix, literal=False):
        self.prefix = prefix
        self.calls = {}
        self.literal = literal      # return graphviz.nohtml('<token>'): literal text shaped like <...>
        self.epoch = 0              # bumped by the driver: "the state the callback reads has changed"
        self.born = {}              # token -> epoch in which it was produced

    def __call__(self, names):
        names = tuple(names)
        token = f'{self.prefix}{len(self.calls)}'
        if self.literal:
            import graphviz
            token = f'<{token}>'
            self.calls[token] = names
            self.born[token] = self.epoch
            return graphviz.nohtml(token)
        self.calls[token] = names
        self.born[token] = self.epoch
        return token


class FalsyRecorder(Recorder):
    """A perfectly legal callback object that happens to be falsy (e.g. an empty container type)."""

    def __len__(self):
        return 0


class ReentrantRecorder(Recorder):
    """A callback that uses the lattice it is labelling: it asks for another (default) export, looks
    members up and walks a traversal before it answers.  The export that called it is unaffected."""

    lattice = None

    def __call__(self, names):
        lat = self.lattice
        if lat is not None and len(self.calls) % 5 == 0:
            self.lattice = None             # no re-entry from the inner export (bounds the depth)
            try:
                with core.monitor_code():   # the inner export is not what is judged here
                    inner = lat.graphviz()
                    inner.node('c0', color='blue')
                    lat[0], lat[-1], list(lat[0].upset())[:3], lat.join([lat[0], lat[-1]])
                COL.count('callbacks_that_reentered_the_lattice')
            except core.CaseTimeout:
                raise
            except Exception:
                COL.count('reentrant_callback_inner_call_raised')
            finally:
                self.lattice = lat
        return super().__call__(names)


class _Raising:
    """A label callback that fails on its k-th call (KeyError from a translation table)."""

    def __init__(self, k):
        self.k = k

    def __call__(self, names):
        self.k -= 1
        if self.k <= 0:
            raise KeyError(tuple(names))
        return ' '.join(names)


_UNSET = object()


class _Formatter:
    """An object whose *method* is the callback (options with defaults after the names)."""

    def __init__(self, recorder):
        self.recorder = recorder

    def label(self, names, width=_UNSET, sep=_UNSET):
        if width is not _UNSET or sep is not _UNSET:
            return 'callback-was-given-more-than-the-names'
        return self.recorder(names)


def shaped(rec, k):
    """The recorder ``rec`` behind one of the shapes user callbacks come in: a plain function, a lambda
    with a defaulted option after the names, a bound method with options, a ``functools.partial`` with
    a keyword-bound option, a keyword-only option, a ``*args`` wrapper, a callable with a positional-only
    parameter.  All of them are called with the names alone; an option that arrives filled in makes the
    callback answer with a text that is none of its tokens."""
    import functools
    wrong = 'callback-was-given-more-than-the-names'
    k %= 7
    if k == 0:
        def f(names):
            return rec(names)
    elif k == 1:
        f = lambda names, sep=_UNSET: rec(names) if sep is _UNSET else wrong       # noqa: E731
    elif k == 2:
        return _Formatter(rec).label
    elif k == 3:
        def g(names, prefix=_UNSET, suffix=_UNSET):
            return rec(names) if prefix == '' and suffix is _UNSET else wrong
        f = functools.partial(g, prefix='')
    elif k == 4:
        def f(names, *, upper=False, concept=None):
            return rec(names) if concept is None and not upper else wrong
    elif k == 5:
        def f(*args):
            return rec(*args) if len(args) == 1 else wrong
    else:
        def f(names, /, concept=None, lattice=None):
            return rec(names) if concept is None and lattice is None else wrong
    f.recorder = rec
    return f


def recorder_of(cb):
    """The Recorder behind a callback of ours (or None for the default / foreign callbacks)."""
    if isinstance(cb, Recorder):
        return cb
    for holder in (cb, getattr(cb, '__self__', None)):
        r = getattr(holder, 'recorder', None)
        if isinstance(r, Recorder):
            return r
    return None


_TOKEN = re.compile(r'\s*(?:"((?:[^"\\]|\\.)*)"|([^\s\[\]=,;"]+)|(\[|\]|=|,|;|->|--))')


def tokenize(line):
    pos, out = 0, []
    line = line.strip()
    while pos < len(line):
        while pos < len(line) and line[pos].isspace():
            pos += 1
        if pos >= len(line):
            break
        if line.startswith('->', pos) or line.startswith('--', pos):
            out.append(('sym', line[pos:pos + 2]))
            pos += 2
            continue
        m = _TOKEN.match(line, pos)
        if not m:
            raise ValueError(f'cannot tokenize {line[pos:pos + 20]!r}')
        if m.group(1) is not None:
            out.append(('str', m.group(1)))
        elif m.group(2) is not None:
            tok = m.group(2)
            if '->' in tok and tok != '->':
                raise ValueError('arrow inside bare token')
            out.append(('id', tok))
        else:
            out.append(('sym', m.group(3)))
        pos = m.end()
    return out


def parse_statement(line):
    """('node', name, attrs) | ('edge', tail, head, attrs) | ('other',)"""
    toks = tokenize(line)
    if not toks:
        return ('other',)
    i = 0

    def ident():
        nonlocal i
        kind, val = toks[i]
        if kind == 'sym':
            raise ValueError('identifier expected')
        i += 1
        return val
    first = ident()
    if first in ('node', 'edge', 'graph') and i < len(toks) and toks[i] == ('sym', '['):
        return ('other',)
    second = None
    if i < len(toks) and toks[i][0] == 'sym' and toks[i][1] in ('->', '--'):
        i += 1
        second = ident()
    attrs = {}
    if i < len(toks) and toks[i] == ('sym', '['):
        i += 1
        while toks[i] != ('sym', ']'):
            key = ident()
            if toks[i] != ('sym', '='):
                raise ValueError('= expected')
            i += 1
            kind, val = toks[i]
            if kind == 'sym':
                raise ValueError('value expected')
            i += 1
            attrs[key] = (kind, val)
            if toks[i] in (('sym', ','), ('sym', ';')):
                i += 1
        i += 1
    if i != len(toks):
        raise ValueError('trailing tokens')
    if second is None:
        return ('node', first, attrs)
    return ('edge', first, second, attrs)


def unquote(kind_val):
    kind, val = kind_val
    if kind == 'str':
        return val.replace('\\"', '"')
    return val


def _hostile(label):
    return '\\' in label or (label.startswith('<') and label.endswith('>'))


class GraphvizMonitor(Monitor):
    def __init__(self, cap):
        self.cap = cap

    def after(self, token, args, kwargs, result):
        lat = args[0]
        view = common.view_of(lat, self.cap)
        COL.count('judged_graphviz')
        if not view.faithful():
            COL.count('unfaithful_lattice_skipped')
            return
        sl, sh = view.sl, view.sh
        ocb = kwargs.get('make_object_label', args[5] if len(args) > 5 else None)
        pcb = kwargs.get('make_property_label', args[6] if len(args) > 6 else None)
        for cb in (ocb, pcb):
            if cb is not None and recorder_of(cb) is None:
                COL.count('out_of_scope_foreign_callbacks')
                return
        if any(cb is not None and not isinstance(cb, Recorder) for cb in (ocb, pcb)):
            COL.count('judged_with_function_method_partial_callbacks')
        ocb, pcb = recorder_of(ocb), recorder_of(pcb)
        recording = isinstance(ocb, Recorder) or isinstance(pcb, Recorder)
        if isinstance(ocb, Recorder) != isinstance(pcb, Recorder):
            COL.count('judged_with_one_recording_callback')
        COL.count('judged_with_recording_callbacks' if recording else 'judged_with_default_callbacks')
        try:
            body = list(result.body)
        except Exception as e:
            COL.violation('graphviz', 'graphviz:no-body', 'DOT lines', repr(e))
            return
        nodes, edges, loops = [], [], []
        for line in body:
            try:
                st = parse_statement(line)
            except (ValueError, IndexError) as e:
                COL.violation('graphviz', 'graphviz:unparsable-line', 'a DOT statement', line, {'error': repr(e)})
                return
            if st[0] == 'node':
                nodes.append(st[1])
            elif st[0] == 'edge':
                (loops if st[1] == st[2] else edges).append(st)
        n = sl.n
        # "named by its index": any fixed prefix followed by the decimal index
        def index_of(name):
            m = re.fullmatch(r'(\D*)(\d+)', name)
            return (m.group(1), int(m.group(2))) if m else (None, None)
        parsed = [index_of(x) for x in nodes]
        prefixes = {p for p, _ in parsed}
        if len(prefixes) != 1 or None in prefixes or sorted(k for _, k in parsed) != list(range(n)):
            COL.violation('graphviz', 'graphviz:nodes-differ', [f'<prefix>{k}' for k in range(min(n, 12))], nodes[:12])
            return
        prefix = prefixes.pop()
        rename = {f'{prefix}{k}': f'c{k}' for k in range(n)}
        edges = [(e[0], rename.get(e[1], e[1]), rename.get(e[2], e[2]), e[3]) for e in edges]
        loops = [(e[0], rename.get(e[1], e[1]), rename.get(e[2], e[2]), e[3]) for e in loops]
        want_edges = sorted((f'c{k}', f'c{l}') for k in range(n) for l in sl.lower(k))
        got_edges = sorted((e[1], e[2]) for e in edges)
        COL.count('edges_checked', len(want_edges))
        if got_edges != want_edges:
            mech = ('graphviz:edge-repeated' if sorted(set(got_edges)) == want_edges
                    else 'graphviz:edges-differ-from-covering-pairs')
            COL.violation('graphviz', mech, want_edges[:12], got_edges[:12])
        # labels
        want_obj = {k: [] for k in range(n)}
        want_prop = {k: [] for k in range(n)}
        for i in range(sh.n):
            want_obj[sl.object_concept(i)].append(sh.objects[i])
        for j in range(sh.m):
            want_prop[sl.attribute_concept(j)].append(sh.properties[j])
        head, tail = {}, {}
        for st in loops:
            _, a, _, attrs = st
            for key, store in (('headlabel', head), ('taillabel', tail)):
                if key in attrs:
                    if a in store:
                        COL.violation('graphviz', f'graphviz:{key}-attached-twice', 'once', a)
                    store[a] = attrs[key]
            if 'headlabel' not in attrs and 'taillabel' not in attrs:
                COL.violation('graphviz', 'graphviz:self-loop-without-label', None, line)
        labelled = False
        for k in range(n):
            name = f'c{k}'
            if len(want_obj[k]) >= 2 or len(want_prop[k]) >= 2:
                COL.count('nodes_with_several_labels')
            for want, store, key, cb in ((want_obj[k], head, 'headlabel', ocb),
                                         (want_prop[k], tail, 'taillabel', pcb)):
                if bool(want) != (name in store):
                    COL.violation('graphviz', f'graphviz:{key}-presence-differs-from-reduced-labelling',
                                  {'node': name, 'labels': want}, name in store)
                    continue
                if not want:
                    continue
                labelled = True
                text = unquote(store[name])
                if isinstance(cb, Recorder) and cb.literal and store[name][0] != 'str':
                    # the callback returned graphviz.nohtml(...): the DOT must carry it as quoted text,
                    # an unquoted <...> value is HTML-like markup, i.e. not the text that was produced
                    COL.violation('graphviz', f'graphviz:{key}-literal-text-emitted-as-markup', f'"{text}"', text,
                                  {'node': name})
                    continue
                if isinstance(cb, Recorder):
                    COL.count('label_texts_checked')
                    given = cb.calls.get(text)
                    if given is None:
                        COL.violation('graphviz', f'graphviz:{key}-text-not-produced-by-callback',
                                      'a callback token', text)
                    elif given != tuple(want):
                        COL.violation('graphviz', f'graphviz:{key}-callback-got-other-names', want, given,
                                      {'node': name})
                    elif cb.born.get(text, cb.epoch) != cb.epoch:
                        # the same callable was used for an earlier export and what it reads has changed since
                        # (a display-name table the user edited): this text is not what it produces now
                        COL.violation('graphviz', f'graphviz:{key}-text-is-what-the-callback-produced-before-its-state-changed',
                                      f'a text produced in epoch {cb.epoch}', f'{text} (epoch {cb.born.get(text)})', {'node': name})
                elif cb is None:
                    if any(_hostile(x) for x in want):
                        COL.count('out_of_scope_escstring_label')
                        continue
                    COL.count('label_texts_checked')
                    if text != ' '.join(want):
                        COL.violation('graphviz', f'graphviz:{key}-default-text-differs', ' '.join(want), text,
                                      {'node': name})
        if isinstance(ocb, Recorder) and isinstance(pcb, Recorder):
            used = set(unquote(v) for v in head.values()) | set(unquote(v) for v in tail.values())
            extra = (set(ocb.calls) | set(pcb.calls)) - used
            if extra:
                COL.count('callback_tokens_not_in_output')
        if want_edges and labelled:
            COL.nontrivial(sh.key())

    def raised(self, token, args, kwargs, exc):
        COL.count('judged_graphviz')
        COL.violation('graphviz', f'graphviz:raised-{type(exc).__name__}', 'a Digraph', repr(exc))


def setup(concepts, spec):
    attach.attach_ctor(concepts)
    attach.attach(concepts.lattices.Lattice, 'graphviz', GraphvizMonitor(CAP[spec['tier']]))
    global POOL
    POOL = common.Pool(5)


HOSTILE = ['say "hi"', 'a->b', 'x=y', '[k]', 'semi;colon', 'two words', 'tab\there', 'üñï', 'a,b',
           '"', 'c0', 'node', 'edge', '#hash', '{brace}', "it's", 'A--B', '0', '1.5', '-x']


def hostile_cases(seed, count):
    import random
    rng = random.Random(f'{seed}/c20hostile')
    for k in range(count):
        n, m = rng.randint(1, 5), rng.randint(1, 5)
        labs = rng.sample(HOSTILE, n + m)
        rows = gen.rnd_rows(rng, n, m, rng.choice([.3, .5, .7]))
        rows, m2 = gen.decorate(rows, m, rng.choice(['none', 'dup_row', 'full_row']), rng)
        extra = [f'extra "{i}"' for i in range(len(rows) - n)]
        yield {'fam': 'HOSTILE', 'objects': labs[:n] + extra, 'properties': labs[n:n + m], 'rows': rows}


def cases(tier, seed, spec):
    # node names with four and five digits (c1000, c10000 ...): Boolean lattices of 2 048 - 16 384 concepts
    for n in ((11,) if tier == 'quick' else (10, 12, 14)):
        full = (1 << n) - 1
        yield gen.case(f'BIGDOT:contranominal{n}', [full & ~(1 << i) for i in range(n)], n, 'rev')
    yield from hostile_cases(seed, 150 if tier == 'quick' else 3000)
    yield from gen.ctx_stream(tier, seed, with_wide=(tier == 'thorough'))


def run_case(concepts, case, spec):
    rng = common.rng_for(case, spec)
    ctx = common.build_or_skip(concepts, case)
    if ctx is None:
        return
    sh = attach.shadow_of(ctx)
    bigdot = case['fam'].startswith('BIGDOT')
    if bigdot:
        sh.cap_override = 70000
        COL.count('bigdot_cases')
    sl = sh.lattice(CAP[spec['tier']])
    if sl.n > 400 and not bigdot:
        raise core.CaseTooLarge(sl.n)
    lat = common.get_lattice(ctx)
    if lat is RAISED:
        COL.count('lattice_construction_raised')
        return
    if bigdot:
        call(lat.graphviz)
        call(lat.graphviz, make_object_label=Recorder('O'), make_property_label=shaped(Recorder('P'), 2))
        return
    if case['fam'] == 'HOSTILE':
        COL.count('hostile_label_tables')
    if sl.n == 1:
        COL.count('one_concept_lattices')
    if sl.n == 2:
        COL.count('two_concept_lattices')
    if hash(gen.table_key(case)) % 3 == 0:
        # the very first export of this lattice is cut short: its label callback raises after a few calls
        # (an incomplete translation table); the exports that follow are complete all the same
        boom = _Raising(1 + hash(gen.table_key(case)) % 4)
        try:
            with core.monitor_code():
                lat.graphviz(make_object_label=boom, make_property_label=boom)
        except core.CaseTimeout:
            raise
        except Exception:
            COL.count('first_export_cut_short_by_a_raising_callback')
    g = call(lat.graphviz)
    if g is not RAISED:
        # the returned Digraph is the caller's to customise (highlight a node, add an edge, drop lines):
        # the next export of the same lattice is a fresh drawing all the same
        try:
            g.node('c0', color='red', label='edited')
            g.edge('c0', 'c%d' % (sl.n - 1), style='dashed')
            g.attr('node', shape='box')
            if len(g.body) > 3:
                del g.body[1]
                g.body.reverse()
        except Exception:
            COL.count('returned_digraph_not_editable')
        COL.count('returned_digraph_edited_before_next_export')
        call(lat.graphviz)
    g2 = call(lat.graphviz, make_object_label=Recorder('O'), make_property_label=Recorder('P'))
    if g2 is not RAISED:
        try:
            g2.body.clear()
            g2.edge('c0', 'c0', headlabel='bogus')
        except Exception:
            pass
    # only one callback customised (the other keeps its default), and a second export of the
    # same lattice object with other callbacks
    call(lat.graphviz, make_object_label=Recorder('L', literal=True), make_property_label=Recorder('M', literal=True))
    call(lat.graphviz, make_object_label=FalsyRecorder('F'), make_property_label=FalsyRecorder('G'))
    call(lat.graphviz, None, None, False, False, Recorder('W'), Recorder('Y'))     # documented positional order
    kk = hash(gen.table_key(case))
    call(lat.graphviz, make_object_label=shaped(Recorder('A'), kk), make_property_label=shaped(Recorder('B'), kk // 7))
    # the same callable objects used for two exports, and what they read has changed in between
    so, sp = Recorder('E'), Recorder('H')
    fo, fp = (so, sp) if kk % 2 else (shaped(so, kk // 3), shaped(sp, kk // 5))
    call(lat.graphviz, make_object_label=fo, make_property_label=fp)
    so.epoch += 1
    sp.epoch += 1
    call(lat.graphviz, make_object_label=fo, make_property_label=fp)
    COL.count('same_callables_used_again_after_their_state_changed')
    ro, rp = ReentrantRecorder('N'), ReentrantRecorder('Z')
    ro.lattice = rp.lattice = lat
    call(lat.graphviz, make_object_label=ro, make_property_label=rp)
    ro.lattice = rp.lattice = None
    call(lat.graphviz, make_object_label=Recorder('Q'))
    call(lat.graphviz, make_property_label=Recorder('R'))
    call(lat.graphviz)
    call(lat.graphviz, 'lattice.gv', spec['workdir'], make_object_label=Recorder('S'), make_property_label=Recorder('T'))
    if len(ctx.objects) <= 12 and len(ctx.properties) <= 12 and sl.n <= 200:
        common.interference(concepts, ctx, lat, rng, 15)
        call(lat.graphviz, make_object_label=Recorder('I'), make_property_label=Recorder('J'))
        call(lat.graphviz)
        COL.count('asked_again_after_interference')
    old = POOL.older(rng)
    if old is not None:
        call(old.graphviz, make_object_label=Recorder('U'), make_property_label=Recorder('V'))
        call(old.graphviz)
        COL.count('session_requeries')
    POOL.add(lat)
    if g is not RAISED:
        COL.sample({'table': case, 'dot_body_head': [l.strip() for l in list(g.body)[:8]]})
