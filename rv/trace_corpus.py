"""Trace corpus for C17: short independent sessions, each a fixed call sequence that
is a pure function of (VERIF_SEED, session id).  Every observable becomes one event
string (``0x…`` addresses masked).  Nothing here may depend on hash order itself:
only lists/tuples are iterated, never sets or dicts of the harness' own making.
"""

import io
import random

from .core import mask_addr

WORDS = ['alpha', 'beta', 'gamma', 'delta', 'epsilon', 'zeta', 'eta', 'theta', 'iota', 'kappa',
         'lambda', 'mu', 'nu', 'xi', 'omicron', 'pi', 'rho', 'sigma', 'tau', 'upsilon', 'phi',
         'chi', 'psi', 'omega', 'äpfel', 'øre', 'ñu', '数', 'слово', 'λόγος']


def session(concepts, seed, sid):
    """Return (events, tags) for session ``sid``."""
    rng = random.Random(f'{seed}/session/{sid}')
    ev, tags = [], set()

    def rec(tag, fn):
        try:
            val = fn()
            ev.append(f'{tag} -> {mask_addr(val if isinstance(val, str) else repr(val))}')
        except RecursionError:
            ev.append(f'{tag} !! RecursionError')
        except Exception as e:
            ev.append(f'{tag} !! {type(e).__name__}: {mask_addr(str(e))}')

    kind = sid % 4
    words = WORDS[:]
    rng.shuffle(words)
    n, m = rng.randint(2, 7), rng.randint(2, 7)
    objects = [w + str(rng.randint(0, 9)) for w in words[:n]]
    properties = ['+' + w for w in words[n:n + m]]
    bools = [tuple(rng.random() < rng.choice([.3, .5, .7]) for _ in range(m)) for _ in range(n)]
    C, D = concepts.Context, concepts.Definition

    if kind in (0, 1):
        ctx = C(objects, properties, bools)
        rec('repr(ctx)', lambda: repr(ctx))
        for fmt in ('table', 'cxt', 'csv', 'python-literal', 'wiki-table', 'fimi'):
            rec(f'tostring:{fmt}', lambda: ctx.tostring(fmt))
        rec('todict-lazy', lambda: ctx.todict(ignore_lattice=None))
        lat = ctx.lattice
        tags.add('set-of-concepts')         # Lattice._annotate, tools.maximal use sets internally
        members = list(lat)
        idx = {id(c): k for k, c in enumerate(members)}
        g = lambda cs: [idx[id(c)] for c in cs]
        rec('lattice', lambda: [(c.index, c.dindex, c.extent, c.intent, c.objects, c.properties,
                                 g(c.atoms), g(c.upper_neighbors), g(c.lower_neighbors),
                                 type(c).__name__) for c in members])
        rec('str(lattice)', lambda: str(lat))
        rec('todict', lambda: ctx.todict())

        def tojson():
            buf = io.StringIO()
            ctx.tojson(buf, indent=rng.choice([None, 2]), sort_keys=False)
            return buf.getvalue()
        rec('tojson', tojson)
        rec('tostring:python-literal+lattice', lambda: ctx.tostring('python-literal'))
        for _ in range(4):
            sub = rng.sample(objects, rng.randint(0, n))
            rec(f'neighbors{sub}', lambda: ctx.neighbors(sub))
            rec(f'ctx[{sub}]', lambda: ctx[sub] if sub else None)
        for _ in range(4):
            a, b, c = (rng.choice(members) for _ in range(3))
            rec('join', lambda: g([a | b, lat.join([a, b, c])]))
            rec('meet', lambda: g([a & b, lat.meet([a, b, c])]))
            rec('upset', lambda: g(a.upset()))
            rec('downset', lambda: g(b.downset()))
            seeds = [a, b, c, a]
            rec('upset_union', lambda: g(lat.upset_union(seeds)))
            rec('downset_union', lambda: g(lat.downset_union(seeds)))
            # a set of seeds: its iteration order is the caller's business, the result is not
            rec('upset_union-set', lambda: g(lat.upset_union(set(seeds))))
            rec('downset_union-frozenset', lambda: g(lat.downset_union(frozenset(seeds))))
            rec('join-set', lambda: g([lat.join(set(seeds)), lat.meet(set(seeds))]))
            rec('attributes', lambda: list(a.attributes())[:20] if len(a.intent) <= 8 else None)
            rec('minimal', lambda: a.minimal())
        rec('relations', lambda: repr(ctx.relations()))
        rec('relations-unary', lambda: repr(ctx.relations(include_unary=True)))
        rec('relations-text', lambda: ctx.relations().tostring())
        rec('graphviz', lambda: ''.join(lat.graphviz().body))
        # short-lived label callables, one export after the other (whatever is remembered about a callable
        # must not outlive it: the next one may live at the same address, or not - per process)
        for tag_ in ('A', 'B', 'C'):
            junk = [object() for _ in range(rng.randint(0, 3))]
            rec(f'graphviz-lambda-{tag_}', lambda: ''.join(lat.graphviz(
                make_object_label=lambda ns, t=tag_: t + ':' + '+'.join(ns),
                make_property_label=lambda ns, t=tag_: t.lower() + ':' + '&'.join(ns)).body))
            del junk
        rec('definition', lambda: repr(ctx.definition()))
        rec('fromdict-roundtrip', lambda: str(C.fromdict(ctx.todict()).lattice))
        rec('fromdict-raw', lambda: str(C.fromdict(ctx.todict(), raw=True).lattice))
        rec('intension-set-arg', lambda: ctx.intension(set(objects[:3])))
        rec('getitem-set-arg', lambda: ctx[frozenset(properties[:2])])
        rec('concepts', lambda: [(c.objects, c.properties) for c in concepts.algorithms.get_concepts(ctx)])
        rec('fcbo_dual', lambda: [(e.members(), i.members()) for e, i in concepts.algorithms.fcbo_dual(ctx)])
    if kind == 1:
        # error messages that list names
        tags.add('set-of-strings')
        k = rng.randint(2, min(n, m, 4)) if min(n, m) >= 2 else 1
        shared = objects[:k]
        props2 = list(properties)
        for i, s in enumerate(rng.sample(shared, len(shared))):
            props2[i] = s
        rec('overlap-error', lambda: C(objects, props2, bools))
        rec('duplicate-objects-error', lambda: C(objects + objects[:2], properties, list(bools) + list(bools[:2])))
        rec('duplicate-properties-error', lambda: C(objects, properties + properties[-2:], [b + b[-2:] for b in bools]))
        rec('shape-error', lambda: C(objects, properties, bools[:-1]))
        many = [f'{w}{i}' for i in range(8) for w in words[:16]]          # 128 labels
        dup = many + [many[5], many[77], many[5], many[120]]
        rec('long-duplicate-objects-error', lambda: C(dup, properties, [bools[0]] * len(dup)))
        rec('long-duplicate-properties-error', lambda: C(objects, dup, [tuple([True] * len(dup))] * n))
        rec('long-duplicate-definition-error', lambda: D(dup, properties, [bools[0]] * len(dup)))
        rec('long-overlap-error', lambda: C(many[:110], ['x'] + many[3:9][::-1] + many[100:104], [tuple([False] * 11)] * 110))
        rec('fromdict-missing', lambda: C.fromdict({'objects': objects}))
        rec('fromdict-nonstring', lambda: C.fromdict({'objects': objects, 'properties': [1, 2], 'context': [()] * n}))
        rec('unknown-format', lambda: C.fromstring('x', frmat='nope'))
        rec('unknown-label', lambda: C(objects, properties, bools).intension(['no such', objects[0]]))
    if kind in (2, 3):
        tags.add('set-of-strings')
        d = D(objects, properties, bools)
        state = lambda: (d.objects, d.properties, d.bools)
        pool_o = objects + [w + '!' for w in words[n + m:n + m + 4]]
        pool_p = properties + ['-' + w for w in words[n + m + 4:n + m + 8]]
        others = [D(rng.sample(pool_o, 3), rng.sample(pool_p, 3),
                    [tuple(rng.random() < .5 for _ in range(3)) for _ in range(3)]) for _ in range(2)]
        for step in range(25):
            op = rng.randrange(16)
            if op == 0:
                args = (rng.choice(pool_o), rng.sample(pool_p, rng.randint(2, 4)))
                if step % 3 == 1:   # an ordered, re-iterable, set-like container of names
                    args = (args[0], dict.fromkeys(args[1] + ['-view%d' % step, '-viewer%d' % step, '-viewest%d' % step]).keys())
                if step % 3 == 0:
                    args = (args[0], args[1] + ['-set%d' % step, '-setter%d' % step, '-set%d' % step, '-settest%d' % step])
                rec(f'set_object{args}', lambda: (d.set_object(*args), state()))
            elif op == 1:
                args = (rng.choice(pool_p), rng.sample(pool_o, rng.randint(2, 4)))
                if step % 3 == 1:
                    args = (args[0], dict.fromkeys(args[1] + ['view%d!' % step, 'viewer%d!' % step, 'viewest%d!' % step]).keys())
                if step % 3 == 0:
                    args = (args[0], args[1] + ['set%d!' % step, 'setter%d!' % step, 'set%d!' % step, 'settest%d!' % step])
                rec(f'set_property{args}', lambda: (d.set_property(*args), state()))
            elif op == 2:
                args = (rng.choice(pool_o), rng.sample(pool_p, rng.randint(2, 4)))
                if step % 2:      # an ordered, re-iterable, non-list container of names
                    args = (args[0], dict.fromkeys(args[1] + ['-fresh%d' % step, '-fresher%d' % step]).keys())
                elif step % 3 == 0:   # a name list that mentions names more than once, several of them new
                    args = (args[0], args[1] + ['-new%d' % step, '-newer%d' % step, '-new%d' % step, args[1][0], '-newest%d' % step])
                rec(f'add_object {args[0]}', lambda: (d.add_object(*args), state()))
            elif op == 3:
                args = (rng.choice(pool_p), tuple(rng.sample(pool_o, rng.randint(2, 4))))
                if step % 2:
                    args = (args[0], dict.fromkeys(list(args[1]) + ['fresh%d!' % step, 'fresher%d!' % step]))
                elif step % 3 == 0:
                    args = (args[0], args[1] + ('new%d!' % step, 'newer%d!' % step, 'new%d!' % step, args[1][-1], 'newest%d!' % step))
                rec(f'add_property {args[0]}', lambda: (d.add_property(*args), state()))
            elif op == 4:
                o = rng.choice(others)
                rec('union_update-ignore', lambda: (d.union_update(o, ignore_conflicts=True), state()))
            elif op == 5:
                o = rng.choice(others)
                rec('union-conflict-message', lambda: repr(d.union(o)))
            elif op == 6:
                o = rng.choice(others)
                rec('intersection', lambda: repr(d.intersection(o, ignore_conflicts=True)))
            elif op == 7:
                names = rng.sample(pool_o + ['ghost1', 'ghost2', 'ghost3'], 4)
                rec(f'take{names}', lambda: repr(d.take(names, reorder=rng.random() < .5)))
                # ordered, re-iterable, set-like containers of names: dict key views, with several unknown names
                pnames = rng.sample(pool_p, 2) + ['phantom-b', 'phantom-a', 'phantom-c']
                rec(f'take-keyviews{names}{pnames}',
                    lambda: repr(d.take(dict.fromkeys(names + ['ghost9', 'ghost8']).keys(), dict.fromkeys(pnames).keys())))
                rec(f'take-dict{names}', lambda: repr(d.take(dict.fromkeys(['ghost7', 'ghost6', 'ghost5'] + names))))
                ko = dict.fromkeys(rng.sample(list(d.objects), min(len(d.objects), 3))).keys() if d.objects else None
                kp = dict.fromkeys(rng.sample(list(d.properties), min(len(d.properties), 3))).keys() if d.properties else None
                rec('take-keyviews-reorder', lambda: repr(d.take(ko, kp, reorder=True)))
                rec('definition-from-keyviews', lambda: repr(D(dict.fromkeys(pool_o).keys(), dict.fromkeys(pool_p).keys(),
                                                               [tuple((i + j) % 3 == 0 for j in range(len(pool_p))) for i in range(len(pool_o))])))
            elif op == 8:
                rec('remove_empty', lambda: (d.remove_empty_objects(), d.remove_empty_properties(), state()))
            elif op == 9 and d.objects:
                x = rng.choice(d.objects)
                rec(f'rename_object {x}', lambda: (d.rename_object(x, x + "'"), state()))
            elif op == 10 and d.properties:
                x = rng.choice(d.properties)
                rec(f'move_property {x}', lambda: (d.move_property(x, 0), state()))
            elif op == 11:
                rec('transposed-inverted', lambda: (repr(d.transposed()), repr(d.inverted())))
            elif op == 12:
                key = (rng.choice(pool_o), rng.choice(pool_p))
                rec(f'setitem{key}', lambda: (d.__setitem__(key, rng.random() < .5), state()))
            elif op in (14, 15):
                # in-place merges that may be refused (conflicting cells): the message, and the definition afterwards
                o = rng.choice(others)
                dd = d.copy()
                sdd = lambda: (dd.objects, dd.properties, dd.bools, dd.tostring())
                if op == 14:
                    rec('intersection_update-maybe-refused', lambda: (dd.intersection_update(o), sdd()))
                else:
                    rec('union_update-maybe-refused', lambda: (dd.union_update(o), sdd()))
                rec('state-after-in-place-merge', sdd)
                rec('other-after-in-place-merge', lambda: (o.objects, o.properties, o.bools))
            else:
                rec('tostring', lambda: (d.tostring(), d.tostring('csv'), d.crc32()))
        if kind == 2:
            long_names = [f'{w}{i}' for i in range(80) for w in words[:16]]         # 1 280 names
            sparse = D(long_names, properties[:3], [tuple(i % 211 == 7 or (j == 1 and i % 389 == 3) for j in range(3))
                                                    for i in range(len(long_names))])
            rec('remove_empty_objects-long-axis', lambda: (sparse.remove_empty_objects()[:5], sparse.objects, sparse.bools))
            sparse_t = D(properties[:3], long_names, [tuple(i % 197 == 5 or (j == 2 and i % 401 == 9) for i in range(len(long_names)))
                                                      for j in range(3)])
            rec('remove_empty_properties-long-axis', lambda: (len(sparse_t.remove_empty_properties()), sparse_t.properties))
        if kind == 3:
            # an edited copy of a larger table merged back into the original: a handful of differing
            # cells (several in one row and in one column) among hundreds of equal ones
            bn, bm = rng.randint(16, 45), rng.randint(16, 45)
            bo = [f'{words[i % 16]}#{i}' for i in range(bn)]
            bp = [f'+{words[(i * 5) % 16]}{i}' for i in range(bm)]
            big = D(bo, bp, [tuple(rng.random() < .4 for _ in bp) for _ in bo])
            edited = big.copy()
            row, col = rng.choice(bo), rng.choice(bp)
            for p_ in rng.sample(bp, rng.randint(2, 4)):
                edited[row, p_] = not big[row, p_]
            for o_ in rng.sample(bo, rng.randint(1, 3)):
                edited[o_, col] = not big[o_, col]
            rec('union-conflict-message-sparse', lambda: repr(big.union(edited)))
            rec('or-conflict-message-sparse', lambda: repr(edited | big))
            rec('intersection-conflict-message-sparse', lambda: repr(big.intersection(edited)))
            rec('union_update-conflict-message-sparse', lambda: repr(big.copy().union_update(edited)))
        if kind == 3 and d.objects and d.properties and not set(d.objects) & set(d.properties):
            rec('context-of-definition', lambda: str(C(*d).lattice))
    return ev, sorted(tags)
