"""Interrupted calls: an exception surfaces in the middle of a library call.

Two ways a call of a read-only API can be cut short without anything being wrong
with its arguments:

* ``interrupted(fn, n, exc_type)`` - a failpoint without a source hook: a
  ``sys.monitoring`` LINE callback counts the statement lines executed in files
  of the library while ``fn`` runs (lines executed on behalf of monitor code are
  not counted) and raises ``exc_type`` at the n-th one - a ``RecursionError``
  because the caller was deep in its own recursion, a ``MemoryError``, a
  ``KeyboardInterrupt`` / timeout handler.
* ``low_stack(fn, headroom)`` - the real thing for the recursion limit: ``fn`` runs
  with only ``headroom`` frames left (the monitor wrappers lift the limit while
  their own code runs, see ``attach``), so a ``RecursionError`` arises wherever
  the library itself recurses or nests too deep - or does not arise, and then the
  result is judged as usual.

Neither produces a verdict by itself: the call that was cut short is *not*
judged (``attach`` sees ``fired()`` change / ``COL.low_limit`` set and skips its
``raised`` hook).  What is judged is everything asked afterwards: a context or a
lattice is immutable, so an aborted query must leave nothing behind.
"""

import sys

from .core import COL

TOOL = 3
_st = {'root': None, 'armed': False, 'countdown': 0, 'exc': None, 'fired': 0, 'ready': None, 'seen': 0}

INTERRUPTED = object()


class Injected:
    """Marker mixed into the raised instance (``isinstance(e, faults.Injected)``)."""


_classes = {}


def _make(exc_type):
    cls = _classes.get(exc_type)
    if cls is None:
        cls = _classes[exc_type] = type('Injected' + exc_type.__name__, (Injected, exc_type), {})
    return cls('injected by the harness: the call is cut short here')


def fired():
    return _st['fired']


def _callback(code, line):
    if not _st['armed']:
        return None
    if COL.depth or not code.co_filename.startswith(_st['root']):
        return None
    _st['seen'] += 1
    _st['countdown'] -= 1
    if _st['countdown'] <= 0:
        _st['armed'] = False
        _st['fired'] += 1
        raise _make(_st['exc'])
    return None


def install(repo):
    import os
    if _st['ready'] is not None:
        return _st['ready']
    if not hasattr(sys, 'monitoring'):
        _st['ready'] = False
        return False
    try:
        sys.monitoring.use_tool_id(TOOL, 'rv-faults')
    except ValueError:
        _st['ready'] = False
        return False
    _st['root'] = os.path.join(os.path.realpath(repo), 'concepts') + os.sep
    sys.monitoring.register_callback(TOOL, sys.monitoring.events.LINE, _callback)
    _st['ready'] = True
    return True


def interrupted(fn, n, exc_type=RecursionError):
    """Run ``fn()``; raise ``exc_type`` at the n-th library line it executes.  Returns the result
    when ``fn`` finished earlier, ``INTERRUPTED`` when the injected exception came back out, and
    re-raises anything else (the caller decides what that means)."""
    if not _st['ready']:
        COL.counters['fault_injection_unavailable'] += 1
        return fn()
    mon = sys.monitoring
    _st.update(armed=True, countdown=n, exc=exc_type, seen=0)
    mon.set_events(TOOL, mon.events.LINE)
    try:
        return fn()
    except BaseException as e:
        if isinstance(e, Injected):
            COL.counters['calls_cut_short_by_an_injected_' + exc_type.__name__] += 1
            return INTERRUPTED
        raise
    finally:
        _st['armed'] = False
        mon.set_events(TOOL, 0)
        COL.counters['library_lines_run_under_fault_injection'] += _st['seen']


class FailingWriter:
    """A text (or binary) stream whose device fills up: ``write`` raises ``OSError(ENOSPC)`` once more
    than ``after`` characters have been written.  The failure counts as a fault of the harness
    (``fired`` moves), so the monitored call it cuts short is not judged."""

    def __init__(self, after, binary=False):
        self.after, self.n, self.binary = after, 0, binary
        self.parts = []

    def write(self, data):
        self.n += len(data)
        if self.n > self.after:
            import errno
            _st['fired'] += 1
            COL.counters['writes_failed_with_ENOSPC_by_the_harness'] += 1
            raise OSError(errno.ENOSPC, 'No space left on device (injected by the harness)')
        self.parts.append(data)
        return len(data)

    def flush(self):
        pass


def environment(fn, types=(OSError,)):
    """Run ``fn()`` where the *environment* is expected to fail it (missing directory, a directory in
    place of a file, a full device): an ``OSError`` that comes back out is not the library's doing, the
    monitored call is not judged (``attach`` checks ``COL.env_fault``).  Returns ``INTERRUPTED`` then,
    the result otherwise; anything that is not an ``OSError`` is re-raised for the caller to handle.
    ``types``: other exception types that are the expected outcome of the call as it is made (a csv
    dialect without quoting and without an escape character cannot write a label that holds the delimiter)."""
    COL.env_fault = types
    try:
        return fn()
    except types:
        COL.counters['calls_failed_by_the_environment_not_judged'] += 1
        return INTERRUPTED
    finally:
        COL.env_fault = False


def count_lines(fn):
    """Run ``fn()`` to its end and return the number of library lines it executed (None if unavailable)."""
    if not _st['ready']:
        return None
    mon = sys.monitoring
    _st.update(armed=True, countdown=1 << 60, exc=RecursionError, seen=0)
    mon.set_events(TOOL, mon.events.LINE)
    try:
        fn()
    finally:
        _st['armed'] = False
        mon.set_events(TOOL, 0)
    return _st['seen']


def _depth():
    f, n = sys._getframe(1), 0
    while f is not None:
        n += 1
        f = f.f_back
    return n


def low_stack(fn, headroom):
    """Run ``fn()`` with ``headroom`` frames left below the recursion limit."""
    high = sys.getrecursionlimit()
    low = _depth() + headroom + 2
    if low >= high or COL.low_limit:
        return fn()
    COL.low_limit, COL.high_limit = low, high
    sys.setrecursionlimit(low)
    try:
        return fn()
    finally:
        sys.setrecursionlimit(high)
        COL.low_limit = 0
        COL.counters['calls_made_with_little_stack_left'] += 1
