"""Parent side: shard a property's workload over subprocesses, merge, verdict.

Exit codes: 0 held on everything observed (possibly with KNOWN-FINDING lines),
1 violation (``VIOLATION property=<id> replay=<path>``), 2 inconclusive.
"""

import hashlib
import importlib
import json
import os
import shutil
import subprocess
import sys
import time

ROOT = os.path.dirname(os.path.dirname(os.path.abspath(__file__)))
PY = os.environ.get('VERIF_PYTHON', '/venv/bin/python')


def _known_findings():
    path = os.path.join(ROOT, 'known_findings.json')
    try:
        with open(path) as f:
            return json.load(f).get('findings', [])
    except FileNotFoundError:
        return []


def child_env(workdir, hashseed='0', extra=None):
    env = dict(os.environ)
    env['PYTHONPATH'] = ROOT
    env['PYTHONHASHSEED'] = str(hashseed)
    env['PYTHONDONTWRITEBYTECODE'] = '1'
    env['CONCEPTS_VERIF'] = '1'
    env.pop('PYTHONSTARTUP', None)
    env.pop('COV_CORE_SOURCE', None)
    env['COVERAGE_PROCESS_START'] = ''
    if extra:
        env.update(extra)
    return env


def run_shards(specs, workdir, jobs, wall_limit):
    """Run shard specs, at most ``jobs`` at a time; return list of results."""
    pending = list(enumerate(specs))
    running = {}
    results = [None] * len(specs)
    deadline = time.time() + wall_limit
    while pending or running:
        while pending and len(running) < jobs:
            i, spec = pending.pop(0)
            sdir = os.path.join(workdir, f'shard{i}')
            os.makedirs(sdir, exist_ok=True)
            spec['out'] = os.path.join(sdir, 'result.json')
            spec['workdir'] = sdir
            spath = os.path.join(sdir, 'spec.json')
            with open(spath, 'w') as f:
                json.dump(spec, f)
            log = open(os.path.join(sdir, 'log.txt'), 'w')
            p = subprocess.Popen(
                [PY] + (['-O'] if spec.get('optimize') else []) + (['-bb', '-X', 'dev'] if spec.get('strict_warnings') else [])
                + ['-X', f'pycache_prefix={os.path.join(workdir, "pyc")}',
                 '-m', 'rv.shard', spath],
                cwd=sdir, env=child_env(workdir), stdout=log, stderr=subprocess.STDOUT)
            running[i] = (p, spec, log)
        time.sleep(0.05)
        for i, (p, spec, log) in list(running.items()):
            rc = p.poll()
            if rc is None:
                if time.time() > deadline:
                    p.kill()
                    p.wait()
                    log.close()
                    results[i] = {'status': 'watchdog', 'shard': i}
                    del running[i]
                continue
            log.close()
            del running[i]
            try:
                with open(spec['out']) as f:
                    results[i] = json.load(f)
            except Exception as e:
                tail = ''
                try:
                    with open(os.path.join(spec['workdir'], 'log.txt')) as f:
                        tail = f.read()[-2000:]
                except OSError:
                    pass
                results[i] = {'status': f'crashed rc={rc}', 'shard': i, 'log': tail,
                              'error': repr(e)}
    return results


def check(prop, tier, seed, repo, jobs, replay=None, quiet=False):
    t0 = time.time()
    mod = importlib.import_module('rv.props.' + prop.lower())
    meta = mod.META
    run_id = f'{prop}-{tier}-{os.getpid()}'
    workdir = os.path.join(ROOT, '.work', run_id)
    shutil.rmtree(workdir, ignore_errors=True)
    os.makedirs(workdir)
    try:
        return _check(mod, meta, prop, tier, seed, repo, jobs, replay, workdir, t0, quiet)
    finally:
        shutil.rmtree(workdir, ignore_errors=True)
        try:
            os.rmdir(os.path.join(ROOT, '.work'))
        except OSError:
            pass


def _check(mod, meta, prop, tier, seed, repo, jobs, replay, workdir, t0, quiet):
    base = {'prop': prop, 'tier': tier, 'seed': seed, 'repo': repo,
            'case_cpu_s': meta.get('case_cpu_s', {}).get(tier, 3600 if tier == 'quick' else 10800),
            'mem_gib': meta.get('mem_gib', 6)}
    base.update(meta.get('spec', {}).get(tier, {}))
    base['known_mechanisms'] = [k['mechanism'] for k in _known_findings()
                                if k.get('property') == prop and k.get('status') == 'known']
    if replay is not None:
        with open(replay) as f:
            rep = json.load(f)
        specs = [dict(base, shard=0, nshards=1, replay=rep['case'],
                      replay_index=rep.get('case_index', 0), optimize=bool(rep.get('python_optimize')),
                      strict_warnings=bool(rep.get('strict_warnings')))]
    else:
        n = max(1, meta.get('shards', {}).get(tier, 16))
        # every fourth shard runs the interpreter with -O (assert statements stripped): the
        # properties must not depend on side effects of asserts in the library
        # every fourth shard (another one) runs with the library's own warnings turned into errors
        # (warnings.filterwarnings('error', module='concepts...'): what `-W error` / pytest's
        # filterwarnings=error do to a user), with -bb (bytes/str confusion raises) and in Python Development Mode (-X dev)
        specs = [dict(base, shard=i, nshards=n, optimize=(i % 4 == 3), strict_warnings=(i % 4 == 1)) for i in range(n)]
    wall = meta.get('wall_limit_s', {}).get(tier, 3600 if tier == 'quick' else 6 * 3600)
    results = run_shards(specs, workdir, jobs, wall)

    # ---- merge -----------------------------------------------------------
    counters = {}
    violations, harness, samples = [], [], []
    distinct = set()
    shard_samples = []
    inconclusive = []
    bindings = {}
    concepts_file = None
    for r in results:
        if r.get('status') != 'ok':
            inconclusive.append(f"shard {r.get('shard')}: {r.get('status')}"
                                + (f" {r.get('log', '')[-400:]}" if r.get('log') else ''))
        for k, v in r.get('counters', {}).items():
            counters[k] = counters.get(k, 0) + v
        violations.extend(r.get('violations', []))
        harness.extend(r.get('harness_errors', []))
        distinct.update(r.get('distinct', []))
        shard_samples.append(r.get('samples', []))
        bindings.update(r.get('bindings', {}))
        concepts_file = concepts_file or r.get('concepts_file')
    for k, lst in enumerate(shard_samples):     # shard k contributes its (k mod n)-th sample:
        if lst and len(samples) < 10:           # early (small) and late (large/rare family) cases
            samples.append(lst[k % len(lst)])
    if harness:
        h = harness[0]
        inconclusive.append(f"{len(harness)} harness error(s), first: {h.get('where')}: "
                            f"{h.get('error')}\n{h.get('traceback') or ''}")
    evaluations = sum(counters.get(k, 0) for k in meta['evaluation_counters'])
    if replay is None:
        for k in meta.get('required_counters', []):
            if counters.get(k, 0) <= 0:
                inconclusive.append(f'deciding monitor never fired: counter {k!r} is 0')
        if evaluations <= 0:
            inconclusive.append('no monitored event was judged')

    # ---- known findings ----------------------------------------------------
    known = [k for k in _known_findings() if k.get('property') == prop
             and k.get('status') == 'known']
    new, seen_known = [], {}
    for v in violations:
        hit = next((k for k in known if k['mechanism'] == v['mechanism']), None)
        if hit is not None and v.get('property', prop) == prop:
            seen_known.setdefault(hit['mechanism'], [hit, 0])[1] += 1
        else:
            new.append(v)

    out = []
    for mech, (k, n) in sorted(seen_known.items()):
        out.append(f"KNOWN-FINDING: property={prop} {k['what']} [mechanism={mech}; observed {n}x in this run]")
    for k in known:
        if k['mechanism'] not in seen_known and replay is None:
            out.append(f"note: listed finding {k['mechanism']!r} was not observed in this run")

    replay_paths = []
    if new:
        os.makedirs(os.path.join(ROOT, 'replays'), exist_ok=True)
        by_mech = {}
        for v in new:
            by_mech.setdefault(v['mechanism'], []).append(v)
        for mech, vs in sorted(by_mech.items()):
            v = min(vs, key=lambda v: len(json.dumps(v.get('case'))))
            blob = json.dumps(v, sort_keys=True, ensure_ascii=False)
            path = os.path.join(ROOT, 'replays',
                                f'{prop}-{hashlib.sha1(blob.encode()).hexdigest()[:12]}.json')
            v = dict(v, seed=seed, tier=tier, n_same_mechanism=len(vs))
            with open(path, 'w') as f:
                json.dump(v, f, indent=1, ensure_ascii=False)
            replay_paths.append(path)
            out.append(f'VIOLATION property={prop} replay={path}')
            out.append(f"  monitor={v['monitor']} mechanism={mech} ({len(vs)}x)")
            out.append(f"  expected={json.dumps(v['expected'], ensure_ascii=False)[:300]}")
            out.append(f"  observed={json.dumps(v['observed'], ensure_ascii=False)[:300]}")

    wall_s = time.time() - t0
    n_viol_total = counters.get('violations', 0)
    # ---- evidence ----------------------------------------------------------
    extra = {k: v for k, v in sorted(counters.items())}
    coverage = {
        'evaluations': int(evaluations),
        'distinct_nontrivial': len(distinct),
        'rule': meta['rule'],
        'samples': samples or [{'note': 'no sample recorded'}],
        'counters': extra,
        'bindings_monitored': {k: len(v) for k, v in sorted(bindings.items())},
        'shards': len(specs),
        'shards_run_with_python_-O': sum(1 for sp in specs if sp.get('optimize')),
        'shards_run_with_library_warnings_as_errors_-bb_-X_dev': sum(1 for sp in specs if sp.get('strict_warnings')),
        'concepts_imported_from': concepts_file,
        'known_findings_observed': {m: n for m, (k, n) in seen_known.items()},
        'inconclusive_reasons': inconclusive,
    }
    try:
        from . import reach
        coverage['code_reach'] = reach.merge([r.get('reach') or {} for r in results])
    except Exception as e:      # evidence only
        coverage['code_reach'] = {'state': [f'merge failed: {e!r}']}
    ex = meta.get('exhaustive', {}).get(tier)
    if ex:
        coverage['exhaustive_part'] = ex
    if replay is None:
        ev = {'property_id': prop, 'tier': tier, 'seed': int(seed), 'level': 'exploration',
              'coverage': coverage, 'assumptions': meta.get('assumptions', []),
              'wall_s': round(wall_s, 2), 'violations': len(new),
              'verdict': 'violated' if new else ('inconclusive' if inconclusive else 'held-on-observed')}
        # evidence/ describes /repo only: a run against another tree (VERIF_REPO=<scratch copy>, used by
        # tools/seeded.py and tools/mutate.py) leaves its record under .work/ instead
        evdir = os.path.join(ROOT, 'evidence') if os.path.realpath(repo) == os.path.realpath('/repo') \
            else os.path.join(ROOT, '.work', 'evidence-of-other-trees')
        os.makedirs(evdir, exist_ok=True)
        tmp = os.path.join(evdir, f'{prop}.json.tmp{os.getpid()}')
        with open(tmp, 'w') as f:
            json.dump(ev, f, indent=1, ensure_ascii=False)
        os.replace(tmp, os.path.join(evdir, f'{prop}.json'))

    head = (f'{prop} tier={tier} seed={seed} repo={repo}: {int(evaluations)} monitored events judged, '
            f'{len(distinct)} distinct non-trivial cases, {counters.get("cases", 0)} cases, '
            f'{len(specs)} shards, {wall_s:.1f}s')
    print(head)
    interesting = {k: v for k, v in extra.items() if not k.startswith('_')}
    if not quiet:
        slow = sorted((x for r in results for x in r.get('slow_cases', [])), reverse=True)[:8]
        if slow:
            print('  slowest cases (s, index, family): ' + json.dumps(slow))
        print('  shard wall_s: ' + ' '.join(str(round(r.get('wall_s', 0))) for r in results))
        print('  counters: ' + ', '.join(f'{k}={v}' for k, v in interesting.items()))
    for line in out:
        print(line)
    if new:
        print(f'RESULT {prop}: VIOLATED ({len(new)} recorded, {n_viol_total} total)')
        return 1
    if inconclusive:
        for r in inconclusive:
            print(f'INCONCLUSIVE property={prop} reason={r}')
        return 2
    print(f'RESULT {prop}: held on everything observed')
    return 0
