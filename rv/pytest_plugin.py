"""pytest plugin: run the repository's own test suite with *all* monitors attached.

Used as a false-alarm screen (a monitor that fires here is either too strict or
has found something the tests do not assert) and as an extra workload.
Enabled with ``-p rv.pytest_plugin`` and CONCEPTS_VERIF=1; results are written to
the file named by RV_PYTEST_OUT.
"""

import importlib
import json
import os

from . import core, attach

PROPS = [f'c{i:02d}' for i in range(1, 21) if i not in (15, 17)]   # C15/C17 have no monitors of their own


def pytest_configure(config):
    if os.environ.get('CONCEPTS_VERIF') != '1':
        return
    col = core.reset('REPO-TESTS')
    concepts = attach.load(os.environ.get('VERIF_REPO', '/repo'))
    spec = {'tier': 'quick', 'seed': 0, 'prop': 'REPO-TESTS', 'workdir': os.getcwd()}
    for name in PROPS:
        mod = importlib.import_module('rv.props.' + name)
        before = len(col.violations)
        try:
            mod.setup(concepts, spec)
        except Exception as e:
            col.harness_error(f'setup {name}', e)
    config._rv_col = col


def pytest_runtest_setup(item):
    core.COL.case = {'test': item.nodeid}
    core.COL.depth = 0


def pytest_sessionfinish(session, exitstatus):
    out = os.environ.get('RV_PYTEST_OUT')
    if out and os.environ.get('CONCEPTS_VERIF') == '1':
        res = core.COL.dump()
        res['exitstatus'] = int(exitstatus)
        with open(out, 'w') as f:
            json.dump(res, f)
