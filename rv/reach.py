"""Code reach of a workload: which statement lines of the library's functions ran.

*Evidence only* - shows what part of the code under test the monitored workload
actually drove (and, in the evidence file, which function lines no case of the
run reached).  Implemented with ``sys.monitoring`` global LINE events under a
tool id of its own; the callback records the (file, line) and returns
``DISABLE`` for that location, so every location costs one callback per
process.  Never produces a verdict; when ``sys.monitoring`` is missing the run
just records ``unavailable``.
"""

import inspect
import os
import sys

TOOL = 5
_root = None
_seen = {}          # filename -> set(lines)
_state = 'off'


def _callback(code, line):
    fn = code.co_filename
    if fn.startswith(_root):
        _seen.setdefault(fn, set()).add(line)
    return sys.monitoring.DISABLE


def install(repo):
    """Start recording lines executed in files under ``<repo>/concepts``."""
    global _root, _state
    if _state != 'off':
        return
    if not hasattr(sys, 'monitoring'):
        _state = 'unavailable: no sys.monitoring'
        return
    _root = os.path.join(os.path.realpath(repo), 'concepts') + os.sep
    mon = sys.monitoring
    try:
        mon.use_tool_id(TOOL, 'rv-reach')
    except ValueError:
        _state = 'unavailable: tool id taken'
        return
    mon.register_callback(TOOL, mon.events.LINE, _callback)
    mon.set_events(TOOL, mon.events.LINE)
    _state = 'on'


def _function_lines(path):
    """Statement lines inside function bodies (module and class bodies run at import time)."""
    try:
        with open(path, encoding='utf-8') as f:
            src = f.read()
        top = compile(src, path, 'exec', dont_inherit=True, optimize=0)
    except (OSError, SyntaxError, ValueError):
        return set()
    text = src.splitlines()
    lines = set()
    todo = [top]
    while todo:
        code = todo.pop()
        for const in code.co_consts:
            if inspect.iscode(const):
                todo.append(const)
        if not code.co_flags & inspect.CO_OPTIMIZED:
            continue            # module or class body
        for _, _, ln in code.co_lines():
            if ln is None or not 0 < ln <= len(text):
                continue
            s = text[ln - 1].strip()
            if ln == code.co_firstlineno and (s.startswith(('def ', 'async def ', '@', 'class '))):
                continue
            if s.startswith(('"""', "'''", 'r"""', '@')) or not s:
                continue
            lines.add(ln)
    return lines


def dump():
    if _state != 'on':
        return {'state': _state}
    files = {}
    for dirpath, _, names in os.walk(_root):
        for n in names:
            if n.endswith('.py'):
                p = os.path.join(dirpath, n)
                exe = _function_lines(p)
                if exe:
                    files[os.path.relpath(p, os.path.dirname(_root.rstrip(os.sep)))] = {
                        'function_lines': sorted(exe),
                        'executed': sorted(exe & _seen.get(p, set()))}
    return {'state': 'on', 'files': files}


def merge(dumps):
    """Parent side: union over shards -> compact per-file summary."""
    files = {}
    states = sorted({d.get('state', 'missing') for d in dumps})
    for d in dumps:
        for name, rec in d.get('files', {}).items():
            f = files.setdefault(name, {'function_lines': set(), 'executed': set()})
            f['function_lines'].update(rec['function_lines'])
            f['executed'].update(rec['executed'])
    out = {'how': 'sys.monitoring LINE events (each location recorded once per shard); statement lines '
                  'inside function bodies of <repo>/concepts; evidence only, never a verdict',
           'state': states, 'files': {}}
    tot = hit = 0
    for name, f in sorted(files.items()):
        exe, got = f['function_lines'], f['executed']
        tot += len(exe)
        hit += len(got)
        out['files'][name] = {'function_lines': len(exe), 'executed_in_this_run': len(got),
                              'not_reached': _ranges(sorted(exe - got))}
    out['function_lines'] = tot
    out['executed_in_this_run'] = hit
    return out


def _ranges(nums):
    out, start, prev = [], None, None
    for n in nums:
        if start is None:
            start = prev = n
        elif n == prev + 1:
            prev = n
        else:
            out.append(str(start) if start == prev else f'{start}-{prev}')
            start = prev = n
    if start is not None:
        out.append(str(start) if start == prev else f'{start}-{prev}')
    return out
