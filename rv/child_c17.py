"""Child interpreter of C17: run a slice of the trace corpus and dump the event
streams.  argv: repo seed first count step out.json ; PYTHONHASHSEED set by the parent."""

import json
import os
import sys

from . import attach, trace_corpus


def main(argv):
    repo, seed, first, count, step, out = argv[1], int(argv[2]), int(argv[3]), int(argv[4]), int(argv[5]), argv[6]
    # perturb the heap so that object addresses differ between the processes
    hs = os.environ.get('PYTHONHASHSEED', '0')
    try:
        salt = int(hs)
    except ValueError:          # PYTHONHASHSEED=random
        salt = os.getpid()
    ballast = [bytearray(17 + (i * 7919 + salt) % 4096) for i in range(50 + salt % 977)]
    concepts = attach.load(repo)
    streams = {}
    for k in range(count):
        sid = first + k * step
        try:
            ev, tags = trace_corpus.session(concepts, seed, sid)
        except Exception as e:          # the session driver itself failed (harness or repo)
            ev, tags = [f'SESSION-ABORTED {type(e).__name__}: {e}'], ['aborted']
        streams[sid] = [ev, tags]
    del ballast
    with open(out, 'w') as f:
        json.dump({'hashseed': hs, 'streams': streams, 'concepts_file': concepts.__file__}, f)


if __name__ == '__main__':
    main(sys.argv)
