"""Fresh-interpreter side of C11: load (context, lattice) pickles made by another
process (different PYTHONHASHSEED), run the structural monitors on them and print
their public-query digests.  argv: batch.pkl out.json repo cap"""

import json
import pickle
import sys

from . import core, attach
from .shadow import Shadow


def main(argv):
    bpath, out, repo, cap = argv[1], argv[2], argv[3], int(argv[4])
    col = core.reset('C11')
    concepts = attach.load(repo)
    attach.attach_ctor(concepts)
    from .props import c11
    with open(bpath, 'rb') as f:
        batch = pickle.load(f)
    digests = []
    for item in batch:
        col.case = {'triple': item['triple']}
        try:
            ctx, lat = pickle.loads(item['blob'])
        except Exception as e:
            col.violation('child', f'cross-process:loads-raised-{type(e).__name__}', 'objects', repr(e))
            digests.append(None)
            continue
        o, p, rows = item['triple']
        sh = Shadow(o, p, rows)
        col.count('loaded')
        got = (tuple(ctx.objects), tuple(ctx.properties), [tuple(map(bool, r)) for r in ctx.bools])
        if got != sh.triple():
            col.violation('child', 'cross-process:context-has-another-triple', sh.triple(), got)
        with core.monitor_code():
            try:
                c11.judge_lattice(lat, ctx, sh, cap, 'unpickled_in_fresh_interpreter')
                digests.append(json.loads(json.dumps(c11.digest(lat))))
            except core.CaseTooLarge:
                digests.append(None)
            except Exception as e:
                col.violation('child', f'cross-process:query-raised-{type(e).__name__}', 'a digest', repr(e))
                digests.append(None)
    res = col.dump()
    res['digests'] = digests
    with open(out, 'w') as f:
        json.dump(res, f)


if __name__ == '__main__':
    main(sys.argv)
