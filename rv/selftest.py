"""Harness self-test used as MANIFEST.setup_cmd: nothing is installed or built;
verifies that the interpreter, the repository import and the monitors attach."""

import importlib
import json
import os
import subprocess
import sys

ROOT = os.path.dirname(os.path.dirname(os.path.abspath(__file__)))


def main(repo):
    code = ("import sys; sys.path.insert(0, %r); from rv import attach, core; c = attach.load(%r); "
            "attach.attach_ctor(c); x = c.Context(['a'], ['p'], [(True,)]); "
            "assert attach.shadow_how(x) == 'ctor'; print('selftest ok', c.__file__)" % (ROOT, repo))
    p = subprocess.run([os.environ.get('VERIF_PYTHON', '/venv/bin/python'), '-c', code],
                       capture_output=True, text=True, env=dict(os.environ, PYTHONDONTWRITEBYTECODE='1'))
    sys.stdout.write(p.stdout)
    sys.stderr.write(p.stderr)
    if p.returncode:
        return 2
    props = sorted(f[:-3] for f in os.listdir(os.path.join(ROOT, 'rv', 'props')) if f[0] == 'c' and f[1:3].isdigit())
    for name in props:
        importlib.import_module('rv.props.' + name).META
    with open(os.path.join(ROOT, 'known_findings.json')) as f:
        json.load(f)
    print(f'{len(props)} property modules importable; known_findings.json readable')
    return 0
