"""sys.monitoring LINE probes on the anchored mechanisms: *evidence only*.

They count how often each decision outcome inside the mechanisms named by the
properties was actually reached by a workload (e.g. both arms of Lindig's
minimality filter).  Probe points are located by source text; a probe whose
text is not found is reported as unavailable and changes nothing else.
Probes never produce a verdict.
"""

import inspect
import sys
import types

from .core import COL

TOOL = 4
_points = {}        # (code, line) -> label
_installed = False

# (module path, function path, [(source substring, label)])
CATALOG = {
    'lindig': [
        ('concepts.algorithms.lindig', 'neighbors', [
            ('minimal &= ~add', 'lindig.neighbors:candidate-rejected-by-minimality-filter'),
            ('yield extent, intent', 'lindig.neighbors:candidate-accepted-as-cover')]),
        ('concepts.algorithms.lindig', 'lattice', [
            ('mapping[n_extent][3].append(extent)', 'lindig.lattice:neighbor-already-known'),
            ('push((n_extent.shortlex(), neighbor))', 'lindig.lattice:neighbor-new-pushed')]),
    ],
    'fcbo': [
        ('concepts.algorithms.fcbo', 'fast_generate_from', [
            ('x = next_property_sets[j] & j_mask', 'fcbo:pruning-test-reached'),
            ('j_extent = extent & context._extents[j]', 'fcbo:pruning-test-passed'),
            ('stack.append((concept, j + 1, next_property_sets))', 'fcbo:canonicity-passed'),
            ('next_property_sets[j] = j_intent', 'fcbo:canonicity-failed')]),
        ('concepts.algorithms.fcbo', 'fcbo_dual', [
            ('x = next_object_sets[j] & j_mask', 'fcbo_dual:pruning-test-reached'),
            ('j_intent = intent & context._intents[j]', 'fcbo_dual:pruning-test-passed'),
            ('stack.append((concept, j + 1, next_object_sets))', 'fcbo_dual:canonicity-passed'),
            ('next_object_sets[j] = j_extent', 'fcbo_dual:canonicity-failed')]),
    ],
    'iterunion': [
        ('concepts.algorithms.common', 'iterunion', [
            ('index, concept = pop()', 'iterunion:popped'),
            ('seen = index', 'iterunion:accepted-not-a-duplicate')]),
    ],
    'fromlist': [
        ('concepts.lattices', 'Data._fromlist', [
            ('index_map = dict(enumerate(concepts))', 'fromlist:raw-arm-resorts'),
            ('c.upper_neighbors = tuple(concepts[i] for i in c.upper_neighbors)', 'fromlist:ordered-arm-trusts-order')]),
    ],
    'prime': [
        ('concepts.matrices', 'Vectors._pair_with>prime', [
            ('prime &= other[i]', 'prime:row-anded'),
            ('i += shift', 'prime:shift-step')]),
        ('concepts.matrices', 'Vectors._pair_with>doubleprime', [
            ('double &= self[i]', 'doubleprime:second-pass-anded')]),
    ],
}


def _resolve(modname, path):
    mod = sys.modules.get(modname)
    if mod is None:
        return None
    outer, _, nested = path.partition('>')
    obj = mod
    for part in outer.split('.'):
        obj = getattr(obj, part, None)
        if obj is None:
            return None
    obj = getattr(obj, '__func__', obj)
    obj = getattr(obj, '__rv_orig__', obj)
    obj = getattr(obj, '__func__', obj)
    code = getattr(obj, '__code__', None)
    if code is None:
        return None
    if nested:
        for const in code.co_consts:
            if isinstance(const, types.CodeType) and const.co_name == nested:
                return const
        return None
    return code


def _callback(code, line):
    label = _points.get((code, line))
    if label is None:
        return sys.monitoring.DISABLE
    COL.counters['probe:' + label] += 1


def install(groups):
    """Install the probes of the named catalog groups (idempotent per process)."""
    global _installed
    if not hasattr(sys, 'monitoring'):
        COL.count('probes_unavailable_no_sys_monitoring')
        return
    mon = sys.monitoring
    if not _installed:
        try:
            mon.use_tool_id(TOOL, 'rv-probes')
        except ValueError:
            COL.count('probes_unavailable_tool_id_taken')
            return
        mon.register_callback(TOOL, mon.events.LINE, _callback)
        _installed = True
    for g in groups:
        for modname, path, subs in CATALOG[g]:
            code = _resolve(modname, path)
            if code is None:
                COL.count(f'probe_unavailable:{path}')
                continue
            try:
                lines, start = inspect.getsourcelines(code)
            except (OSError, TypeError):
                COL.count(f'probe_unavailable:{path}')
                continue
            found = False
            for sub, label in subs:
                hits = [start + k for k, text in enumerate(lines) if sub in text]
                if len(hits) != 1:
                    COL.count(f'probe_unavailable:{label}')
                    continue
                _points[(code, hits[0])] = label
                COL.counters['probe:' + label] += 0
                found = True
            if found:
                mon.set_local_events(TOOL, code, mon.events.LINE)
