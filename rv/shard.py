"""Shard process: attach the monitors of one property and drive its cases.

Usage: python -m rv.shard SPEC.json   (result written to spec['out'])
"""

import importlib
import itertools
import json
import os
import resource
import signal
import sys
import time

from . import core, attach, reach, faults


def _on_timer(signum, frame):
    raise core.CaseTimeout()


def run(spec):
    prop = spec['prop']
    col = core.reset(prop)
    col.python_optimize = bool(sys.flags.optimize)
    try:
        lim = int(spec.get('mem_gib', 6)) << 30
        resource.setrlimit(resource.RLIMIT_AS, (lim, lim))
    except (ValueError, OSError):
        pass
    sys.setrecursionlimit(max(sys.getrecursionlimit(), 1000))
    t0 = time.time()
    result = {'shard': spec.get('shard', 0), 'status': 'ok'}
    try:
        concepts = attach.load(spec['repo'])
        mod = importlib.import_module('rv.props.' + prop.lower())
        mod.setup(concepts, spec)
        reach.install(spec['repo'])
        faults.install(spec['repo'])
        if spec.get('strict_warnings'):
            import warnings
            # a warning attributed to the library's own modules is an error, as under `-W error`;
            # warnings attributed to the caller (deprecations of a calling style) are the caller's business
            warnings.filterwarnings('error', module=r'concepts(\..*)?$')
            col.strict_warnings = True
    except core.HarnessError as e:
        col.harness_error('setup', e)
        result['status'] = 'setup-failed'
        result.update(col.dump(), wall_s=time.time() - t0)
        return result
    except Exception as e:
        col.harness_error('setup', e)
        result['status'] = 'setup-failed'
        result.update(col.dump(), wall_s=time.time() - t0)
        return result

    if spec.get('replay') is not None:
        cases = [(spec.get('replay_index', 0), core.revive_ints(spec['replay']))]
    else:
        stream = mod.cases(spec['tier'], spec['seed'], spec)
        cases = itertools.islice(enumerate(stream), spec['shard'], None, spec['nshards'])

    cpu_limit = float(spec.get('case_cpu_s', 300))
    signal.signal(signal.SIGVTALRM, _on_timer)
    n_cases = 0
    timeouts = 0
    abandoned = 0
    known = set(spec.get('known_mechanisms', ()))
    slow = []
    for idx, case in cases:
        t_case = time.time()
        col.case = case
        col.case_index = idx
        col.events.clear()
        n_cases += 1
        fam = case.get('fam') or case.get('kind') if isinstance(case, dict) else None
        if isinstance(case, dict) and fam is None and isinstance(case.get('table'), dict):
            fam = case['table'].get('fam')
        if fam:
            fam = str(fam).split(':')[0]
            col.count('family:' + (fam[:3] if fam.startswith('EXH') else fam.rstrip('0123456789')))
        # cases of the tiny-table families cost milliseconds: a tight CPU limit there still leaves a
        # factor > 1 000; the big families legitimately take up to minutes and get the generous one
        small = isinstance(fam, str) and (fam.startswith('EXH') or fam in ('RND', 'RNDs', 'STRUCT', 'NEAR', 'TGT', 'HOSTILE', 'valid', 'triple', 'dict', 'pair', 'random'))
        limit = min(cpu_limit, 300.0) if small else cpu_limit
        # this shard already holds a violation that is no listed finding: the verdict of the run is
        # settled, so a case that needs minutes is abandoned (counted, never a verdict of its own)
        settled = any(v.get('mechanism') not in known for v in col.violations)
        if settled:
            limit = min(limit, 120.0)
        signal.setitimer(signal.ITIMER_VIRTUAL, limit)
        try:
            mod.run_case(concepts, case, spec)
        except core.CaseTooLarge:
            col.count('cases_skipped_too_large')
        except core.CaseTimeout:
            if settled:
                col.depth = 0
                col.count('slow_cases_abandoned_after_a_violation')
                abandoned += 1
                if abandoned >= 3:
                    col.count('shard_stopped_after_repeated_timeouts')
                    break
            elif col.depth:
                col.depth = 0
                col.harness_error('cpu budget exceeded inside monitor code')
            else:
                col.violation('watchdog', 'call-did-not-return',
                              expected=f'monitored call returns within {limit:.0f} s CPU',
                              observed='still running')
                timeouts += 1
                if timeouts >= 2:       # already violated: do not burn hours on a tree that does not return
                    col.count('shard_stopped_after_repeated_timeouts')
                    break
        except MemoryError as e:
            col.depth = 0
            col.harness_error('MemoryError', e)
        except RecursionError as e:
            col.depth = 0
            col.harness_error('RecursionError in driver', e)
        except Exception as e:
            col.depth = 0
            col.harness_error('driver', e)
        finally:
            signal.setitimer(signal.ITIMER_VIRTUAL, 0)
        if col.depth:
            col.depth = 0
        dt = time.time() - t_case
        if dt > 2:
            slow.append([round(dt, 1), idx, str(case.get('fam', case.get('kind', '')))[:60]])
    col.case = None
    try:
        fin = getattr(mod, 'finish', None)
        if fin:
            fin(concepts, spec)
    except Exception as e:
        col.harness_error('finish', e)
    col.count('cases', n_cases)
    result.update(col.dump(), wall_s=time.time() - t0, slow_cases=sorted(slow, reverse=True)[:6],
                  bindings=attach.bindings(), reach=reach.dump(),
                  concepts_file=getattr(sys.modules.get('concepts'), '__file__', None))
    return result


def die_with_parent():
    """A shard must not outlive the check that started it (PR_SET_PDEATHSIG; best effort)."""
    try:
        import ctypes
        import signal
        ctypes.CDLL(None, use_errno=True).prctl(1, int(signal.SIGKILL), 0, 0, 0)
    except Exception:
        pass


def main(argv):
    die_with_parent()
    with open(argv[1]) as f:
        spec = json.load(f)
    res = run(spec)
    tmp = spec['out'] + '.tmp'
    with open(tmp, 'w') as f:
        json.dump(res, f)
    os.replace(tmp, spec['out'])


if __name__ == '__main__':
    main(sys.argv)
