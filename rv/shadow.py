"""Independent FCA reference model (imports neither ``concepts`` nor ``bitsets``).

Everything is computed from the definitions with plain ints used as bit masks
(bit ``i`` of an object mask = i-th object of the context, bit ``j`` of a
property mask = j-th property):

* derivation = AND over the rows / columns selected by the argument;
* concepts   = closure of the set of row intents under intersection (a third
  algorithm, unrelated to Lindig's and to FCbO);
* order, covers, lub/glb, filters/ideals, object/attribute concepts, ranks are
  all derived from subset tests over the concept list.
"""

from .core import CaseTooLarge


def bits(mask):
    """Ascending positions of the set bits of ``mask`` (no lowest-bit tricks)."""
    out = []
    i = 0
    while mask:
        if mask & 1:
            out.append(i)
        mask >>= 1
        i += 1
    return tuple(out)


def popcount(mask):
    return bin(mask).count('1')


def mask_of(indexes):
    m = 0
    for i in indexes:
        m |= 1 << i
    return m


def shortlex_key(mask):
    return (popcount(mask), bits(mask))


def longlex_key(mask):
    return (-popcount(mask), bits(mask))


class Shadow:
    """Formal context as two label tuples and a tuple of row masks."""

    def __init__(self, objects, properties, rows):
        self.objects = tuple(objects)
        self.properties = tuple(properties)
        self.n = len(self.objects)
        self.m = len(self.properties)
        self.rows = tuple(rows)
        assert len(self.rows) == self.n
        self.ALLO = (1 << self.n) - 1
        self.ALLP = (1 << self.m) - 1
        cols = [0] * self.m
        for i, r in enumerate(self.rows):
            for j in bits(r):
                cols[j] |= 1 << i
        self.cols = tuple(cols)
        self.oidx = {o: i for i, o in enumerate(self.objects)}
        self.pidx = {p: j for j, p in enumerate(self.properties)}
        self._lattice = None
        self._too_large = None
        self.cap_override = None      # set by drivers of big-lattice cases

    @classmethod
    def from_bools(cls, objects, properties, bools):
        rows = []
        for row in bools:
            r = 0
            for j, b in enumerate(row):
                if b:
                    r |= 1 << j
            rows.append(r)
        return cls(objects, properties, rows)

    def triple(self):
        return (self.objects, self.properties,
                [tuple(bool(r >> j & 1) for j in range(self.m)) for r in self.rows])

    def key(self):
        """Hashable identity of the table (labels + cells)."""
        return (self.objects, self.properties, self.rows)

    # -- labels <-> masks ---------------------------------------------------
    def omask(self, labels):
        m = 0
        for o in labels:
            m |= 1 << self.oidx[o]
        return m

    def pmask(self, labels):
        m = 0
        for p in labels:
            m |= 1 << self.pidx[p]
        return m

    def olabels(self, mask):
        return tuple(self.objects[i] for i in bits(mask))

    def plabels(self, mask):
        return tuple(self.properties[j] for j in bits(mask))

    # -- derivation ---------------------------------------------------------
    def intension(self, omask):
        res = self.ALLP
        for i in bits(omask):
            res &= self.rows[i]
        return res

    def extension(self, pmask):
        res = self.ALLO
        for j in bits(pmask):
            res &= self.cols[j]
        return res

    def closure_o(self, omask):
        intent = self.intension(omask)
        return self.extension(intent), intent

    def closure_p(self, pmask):
        extent = self.extension(pmask)
        return extent, self.intension(extent)

    def is_concept(self, extent, intent):
        return self.intension(extent) == intent and self.extension(intent) == extent

    # -- concepts -------------------------------------------------------------
    def intents(self, cap):
        """All concept intents: closure of the row set under intersection."""
        intents = {self.ALLP}
        for r in self.rows:
            new = {i & r for i in intents}
            intents |= new
            if len(intents) > cap:
                raise CaseTooLarge(len(intents))
        return intents

    def lattice(self, cap=1500):
        cap = max(cap, self.cap_override or 0)
        if self._lattice is None:
            if self._too_large is not None and self._too_large >= cap:
                raise CaseTooLarge(self._too_large)
            try:
                self._lattice = ShadowLattice(self, cap)
            except CaseTooLarge:
                self._too_large = cap
                raise
        return self._lattice


BIG = 5000      # above: no O(n^2) order matrix; covers via closures of extent + one object


class ShadowLattice:
    """All concepts of a shadow context with order structure by definition."""

    def __init__(self, ctx, cap):
        self.ctx = ctx
        pairs = [(ctx.extension(i), i) for i in ctx.intents(cap)]
        pairs.sort(key=lambda p: shortlex_key(p[0]))
        self.extents = [e for e, _ in pairs]
        self.intents = [i for _, i in pairs]
        self.n = len(pairs)
        self.big = self.n > BIG
        self.index_of = {e: k for k, e in enumerate(self.extents)}
        self.index_of_intent = {i: k for k, i in enumerate(self.intents)}
        self._up = self._down = None
        self._upper = self._lower = None
        self._dindex = None
        self._objc = self._attc = None

    # order ---------------------------------------------------------------
    def _order(self):
        if self.big:
            raise CaseTooLarge(self.n)      # callers fall back to light oracles or skip
        if self._up is None:
            n, ext = self.n, self.extents
            up = [0] * n
            down = [0] * n
            for a in range(n):
                ea = ext[a]
                bit_a = 1 << a
                for b in range(a, n):   # shortlex: a superset never comes earlier
                    if ea & ext[b] == ea:
                        up[a] |= 1 << b
                        down[b] |= bit_a
            self._up, self._down = up, down
        return self._up, self._down

    def leq(self, a, b):
        ea = self.extents[a]
        return ea & self.extents[b] == ea

    def up(self, a):
        return self._order()[0][a]

    def down(self, a):
        return self._order()[1][a]

    def _covers_big(self):
        """Upper covers of E = the minimal closures of E + one more object (a theorem of FCA);
        lower covers are the converse.  Used instead of the order matrix for big lattices."""
        ctx, n = self.ctx, self.n
        upper = [[] for _ in range(n)]
        lower = [[] for _ in range(n)]
        for a in range(n):
            e = self.extents[a]
            cands = set()
            rest = ctx.ALLO & ~e
            for o in bits(rest):
                cands.add(ctx.closure_o(e | 1 << o)[0])
            for c in cands:
                if not any(d != c and d & c == d for d in cands):      # minimal by inclusion
                    k = self.index_of[c]
                    upper[a].append(k)
                    lower[k].append(a)
            upper[a].sort()
        lkey = [longlex_key(x) for x in self.extents]
        for c in range(n):
            lower[c].sort(key=lkey.__getitem__)
        return upper, lower

    def _covers(self):
        if self._upper is None and self.big:
            self._upper, self._lower = self._covers_big()
        if self._upper is None:
            up, down = self._order()
            n = self.n
            upper = [[] for _ in range(n)]
            lower = [[] for _ in range(n)]
            for a in range(n):
                kept = 0
                for c in bits(up[a] & ~(1 << a)):   # ascending index = ascending size
                    if not down[c] & kept:
                        kept |= 1 << c
                        upper[a].append(c)
                        lower[c].append(a)
            lkey = [longlex_key(e) for e in self.extents]
            for c in range(n):
                lower[c].sort(key=lkey.__getitem__)
            self._upper, self._lower = upper, lower
        return self._upper, self._lower

    def upper(self, a):
        """Upper covers of ``a`` in shortlex order (= ascending index)."""
        return self._covers()[0][a]

    def lower(self, a):
        """Lower covers of ``a`` in longlex order."""
        return self._covers()[1][a]

    def dindex(self):
        if self._dindex is None:
            order = sorted(range(self.n), key=lambda k: longlex_key(self.extents[k]))
            d = [0] * self.n
            for rank, k in enumerate(order):
                d[k] = rank
            self._dindex = d
        return self._dindex

    # bounds by definition ----------------------------------------------------
    def join(self, members):
        """Least upper bound of the member indexes (None if not unique/exists)."""
        if self.big:        # no order matrix: scan for the upper bounds, the least is contained in all others
            ext = self.extents
            ubs = [k for k in range(self.n) if all(ext[a] & ext[k] == ext[a] for a in members)]
            least = [u for u in ubs[:1] if all(ext[u] & ext[k] == ext[u] for k in ubs)]
            return least[0] if least else None
        up, down = self._order()
        ubs = (1 << self.n) - 1
        for a in members:
            ubs &= up[a]
        least = [u for u in bits(ubs) if ubs & ~up[u] == 0]
        return least[0] if len(least) == 1 else None

    def meet(self, members):
        if self.big:
            ext = self.extents
            lbs = [k for k in range(self.n) if all(ext[k] & ext[a] == ext[k] for a in members)]
            greatest = [l for l in lbs[-1:] if all(ext[k] & ext[l] == ext[k] for k in lbs)]
            return greatest[0] if greatest else None
        up, down = self._order()
        lbs = (1 << self.n) - 1
        for a in members:
            lbs &= down[a]
        greatest = [l for l in bits(lbs) if lbs & ~down[l] == 0]
        return greatest[0] if len(greatest) == 1 else None

    # labelling ---------------------------------------------------------------
    def object_concept(self, i):
        """Index of the concept with least extent containing object ``i``."""
        if self._objc is None:
            self._objc = {}
        k = self._objc.get(i)
        if k is None and self.big:
            k = self._objc[i] = self.index_of[self.ctx.closure_o(1 << i)[0]]
        if k is None:
            bit = 1 << i
            cands = [c for c in range(self.n) if self.extents[c] & bit]
            k = cands[0]                      # smallest extent (shortlex order) ...
            if not all(self.leq(k, d) for d in cands):      # ... must be below all the others
                raise AssertionError('no least concept containing the object')
            self._objc[i] = k
        return k

    def attribute_concept(self, j):
        """Index of the concept with greatest extent whose intent has ``j``."""
        if self._attc is None:
            self._attc = {}
        k = self._attc.get(j)
        if k is None and self.big:
            k = self._attc[j] = self.index_of[self.ctx.extension(1 << j)]
        if k is None:
            bit = 1 << j
            cands = [c for c in range(self.n) if self.intents[c] & bit]
            k = cands[-1]                     # largest extent ...
            if not all(self.leq(d, k) for d in cands):      # ... must be above all the others
                raise AssertionError('no greatest concept having the property')
            self._attc[j] = k
        return k

    def atoms(self):
        return self.upper(0)

    def pairs_labels(self):
        c = self.ctx
        return [(c.olabels(e), c.plabels(i)) for e, i in zip(self.extents, self.intents)]
