"""Workload generators: context families, label schemes, argument samplers.

A *table case* is a JSON-able dict::

    {'fam': 'RND', 'objects': [...], 'properties': [...], 'rows': [int, ...]}

``rows[i]`` is the bit mask of the true cells of object ``i`` (bit ``j`` =
property ``j``).  All randomness comes from ``random.Random`` instances seeded
from ``(VERIF_SEED, family, counter)`` so that a case list is a pure function of
``(tier, seed)`` and can be split across shard processes by index.
"""

import itertools
import random

# --------------------------------------------------------------------------
# label schemes: positional order deliberately differs from label order

_GREEK = ['αλφα', 'βήτα', 'γάμμα', 'δέλτα', 'έψιλον', 'ζήτα', 'ήτα', 'θήτα',
          'ιώτα', 'κάππα', 'λάμδα', 'μυ', 'νυ', 'ξι', 'όμικρον', 'πι']


def labels(n, m, scheme, rng=None):
    """Return (objects, properties): disjoint, duplicate-free str lists."""
    if scheme == 'plain':
        return [f'o{i}' for i in range(n)], [f'p{j}' for j in range(m)]
    if scheme == 'rev':        # label order is the reverse of positional order
        return ([f'o{n - 1 - i:03d}' for i in range(n)],
                [f'p{m - 1 - j:03d}' for j in range(m)])
    if scheme == 'shared':     # tiny shared alphabet: many live contexts collide
        return ([chr(ord('a') + i) if i < 26 else f'a{i}' for i in range(n)],
                [chr(ord('A') + j) if j < 26 else f'A{j}' for j in range(m)])
    if scheme == 'unicode':
        return ([f'{_GREEK[i % 16]}{i // 16 or ""}' for i in range(n)],
                [f'ж{_GREEK[(j * 7) % 16]}{j // 16 or ""}·' for j in range(m)])
    if scheme == 'shuffled':
        rng = rng or random.Random(n * 1000 + m)
        o = [f'obj{i:03d}' for i in range(n)]
        p = [f'prop {j:03d}' for j in range(m)]
        rng.shuffle(o)
        rng.shuffle(p)
        return o, p
    if scheme == 'confusable':
        # labels that differ only by case, Unicode normalisation form, padding or look like
        # numbers / keywords - and the empty string (a legal label)
        pool_o = ['a', '', 'A', '\u00e9', 'e\u0301', '1', '01', ' 1', 'True', 'None', 'ß', 'SS', 'ss', 'ǅ', 'ǆ', '١']
        pool_p = ['x', 'X', '\u00f1', 'n\u0303', '0', '00', '0 ', 'False', 'none', 'İ', 'i', 'I', 'ı', '２', '2', 'null']
        return ([pool_o[i] if i < len(pool_o) else f'o{i}' for i in range(n)],
                [pool_p[j] if j < len(pool_p) else f'p{j}' for j in range(m)])
    if scheme == 'composite':
        # multi-character labels all of whose characters are labels of the same kind themselves
        pool_o = ['a', 'b', 'ab', 'c', 'ba', 'abc', 'cab', 'aa', 'bc', 'd', 'dab', 'cc']
        pool_p = ['1', '0', '10', '2', '01', '210', '11', '20', '3', '123', '00', '31']
        return ([pool_o[i] if i < len(pool_o) else f'o{i}' for i in range(n)],
                [pool_p[j] if j < len(pool_p) else f'p{j}' for j in range(m)])
    if scheme == 'jsonish':
        # labels that look like pieces of serialised documents (interval-scale names, JSON/python fragments)
        pool_o = ['age [ 18, 64 ]', 'kids [ 0 ]', '{ "k" : [ 3 ] }', 'x [ 1,  2 ]', 'null', 'true', '"quoted"',
                  'back\\slash', '\\u0041', "('a', 'b')", '[ ]', '# no comment']
        pool_p = ['size [ 1, 2, 3 ]', 'n [ 7 ]', '{ }', ': ', 'None', 'false', "'single'", '\\n', '%s', '{0}', '[ 10,20 ]', '0x1F']
        return ([pool_o[i] if i < len(pool_o) else f'o [ {i} ]' for i in range(n)],
                [pool_p[j] if j < len(pool_p) else f'p [ {j} ]' for j in range(m)])
    raise ValueError(scheme)


SCHEMES = ['rev', 'shuffled', 'shared', 'unicode', 'plain', 'confusable', 'composite', 'jsonish']


def case(fam, rows, m, scheme, rng=None, n=None):
    n = len(rows) if n is None else n
    o, p = labels(n, m, scheme, rng)
    return {'fam': fam, 'objects': o, 'properties': p, 'rows': list(rows)}


# --------------------------------------------------------------------------
# families

def exh(kn, km, sizes=None):
    """Every boolean table with 1..kn objects and 1..km properties."""
    k = 0
    sizes = sizes or [(n, m) for n in range(1, kn + 1) for m in range(1, km + 1)]
    for n, m in sizes:
        for rows in itertools.product(range(1 << m), repeat=n):
            yield case(f'EXH{n}x{m}', rows, m, SCHEMES[k % 3] if k % 7 else 'confusable')
            k += 1


DENSITIES = [.05, .2, .35, .5, .65, .8, .95]


def rnd_rows(rng, n, m, density):
    rows = []
    for _ in range(n):
        r = 0
        for j in range(m):
            if rng.random() < density:
                r |= 1 << j
        rows.append(r)
    return rows


def rnd(seed, count, max_n, max_m, tag='RND'):
    rng = random.Random(f'{seed}/{tag}')
    for k in range(count):
        n = rng.randint(1, max_n)
        m = rng.randint(1, max_m)
        d = DENSITIES[k % len(DENSITIES)]
        if k % 5 == 4:    # per-row density variant
            rows = []
            for _ in range(n):
                rows.extend(rnd_rows(rng, 1, m, rng.choice(DENSITIES)))
        else:
            rows = rnd_rows(rng, n, m, d)
        yield case(tag, rows, m, SCHEMES[k % len(SCHEMES)], rng)


def _nominal(n):
    return [1 << i for i in range(n)], n


def _ordinal(n):
    return [(1 << (i + 1)) - 1 for i in range(n)], n


def _contranominal(n):
    full = (1 << n) - 1
    return [full & ~(1 << i) for i in range(n)], n


def _interordinal(n):
    # properties: <=0..<=n-1, >=0..>=n-1
    rows = []
    for i in range(n):
        r = 0
        for j in range(n):
            if i <= j:
                r |= 1 << j
            if i >= j:
                r |= 1 << (n + j)
        rows.append(r)
    return rows, 2 * n


def _antichain(n):
    return [1 << i for i in range(n)], n


def _block(n, blocks=2):
    rows = []
    size = max(1, n // blocks)
    for i in range(n):
        b = min(i // size, blocks - 1)
        r = 0
        for j in range(n):
            if min(j // size, blocks - 1) == b and (i + j) % 3 != 0:
                r |= 1 << j
        rows.append(r)
    return rows, n


def _apposition(a, b):
    (ra, ma), (rb, mb) = a, b
    n = min(len(ra), len(rb))
    return [ra[i] | (rb[i] << ma) for i in range(n)], ma + mb


SCALES = {'nominal': _nominal, 'ordinal': _ordinal, 'contranominal': _contranominal,
          'interordinal': _interordinal, 'antichain': _antichain, 'block': _block}

DECORATIONS = ['none', 'dup_row', 'dup_col', 'full_row', 'empty_row', 'full_col',
               'empty_col', 'meet_row', 'meet_col', 'dup_row+full_col',
               'full_row+empty_col', 'dup_col+dup_row+full_row']


def decorate(rows, m, how, rng):
    """Apply one decoration; returns (rows, m)."""
    rows = list(rows)
    n = len(rows)
    if how == 'none':
        return rows, m
    if '+' in how:
        for h in how.split('+'):
            rows, m = decorate(rows, m, h, rng)
        return rows, m
    if how == 'dup_row':
        i = rng.randrange(n)
        rows.insert(rng.randrange(n + 1), rows[i])
    elif how == 'full_row':
        rows.insert(rng.randrange(n + 1), (1 << m) - 1)
    elif how == 'empty_row':
        rows.insert(rng.randrange(n + 1), 0)
    elif how == 'meet_row':
        a, b = rng.randrange(n), rng.randrange(n)
        rows.insert(rng.randrange(n + 1), rows[a] & rows[b])
    elif how in ('dup_col', 'full_col', 'empty_col', 'meet_col'):
        pos = rng.randrange(m + 1)
        a, b = rng.randrange(m), rng.randrange(m)
        new = []
        for r in rows:
            if how == 'dup_col':
                bit = r >> a & 1
            elif how == 'full_col':
                bit = 1
            elif how == 'empty_col':
                bit = 0
            else:
                bit = (r >> a & 1) & (r >> b & 1)
            low = r & ((1 << pos) - 1)
            high = r >> pos
            new.append(low | bit << pos | high << (pos + 1))
        rows, m = new, m + 1
    else:
        raise ValueError(how)
    return rows, m


def struct(seed, sizes, decorations=DECORATIONS, tag='STRUCT'):
    rng = random.Random(f'{seed}/{tag}')
    k = 0
    names = sorted(SCALES)
    for size in sizes:
        for name in names:
            if name == 'interordinal' and size > 7:
                continue
            if name == 'contranominal' and size > 10:
                continue
            rows, m = SCALES[name](size)
            for deco in decorations:
                r2, m2 = decorate(rows, m, deco, rng)
                yield case(f'{tag}:{name}{size}:{deco}', r2, m2,
                           SCHEMES[k % len(SCHEMES)], rng)
                k += 1
    # appositions of two scales
    for size in sizes[:4]:
        for a, b in itertools.combinations(names, 2):
            if 'interordinal' in (a, b) and size > 5:
                continue
            if 'contranominal' in (a, b) and size > 7:
                continue
            rows, m = _apposition(SCALES[a](size), SCALES[b](size))
            deco = DECORATIONS[k % len(DECORATIONS)]
            r2, m2 = decorate(rows, m, deco, rng)
            yield case(f'{tag}:{a}|{b}{size}:{deco}', r2, m2,
                       SCHEMES[k % len(SCHEMES)], rng)
            k += 1


BOUNDARY_POS = [29, 30, 31, 32, 33, 59, 60, 61, 62, 63, 64, 65, 66,
                89, 90, 91, 92, 127, 128, 129, 130]


def wide(seed, count, tag='WIDE'):
    """65-200 members on one or both axes, sparse, members at word boundaries."""
    rng = random.Random(f'{seed}/{tag}')
    for k in range(count):
        mode = k % 3
        n = rng.randint(65, 200) if mode in (0, 2) else rng.randint(2, 9)
        m = rng.randint(65, 200) if mode in (1, 2) else rng.randint(2, 9)
        # a few "generator" rows; other rows are copies/intersections so that the
        # lattice stays small although the axes are wide
        base = []
        for _ in range(rng.randint(2, 5)):
            r = 0
            for j in BOUNDARY_POS:
                if j < m and rng.random() < .5:
                    r |= 1 << j
            for _ in range(rng.randint(0, 4)):
                r |= 1 << rng.randrange(m)
            if m <= 9:
                r = rng.getrandbits(m)
            base.append(r)
        rows = []
        special = {p for p in BOUNDARY_POS if p < n}
        for i in range(n):
            if i in special or rng.random() < .08 or n <= 9:
                c = rng.random()
                if c < .6:
                    rows.append(rng.choice(base))
                elif c < .8:
                    rows.append(rng.choice(base) & rng.choice(base))
                else:
                    rows.append((1 << m) - 1 if rng.random() < .3 else rng.choice(base) | 1 << rng.randrange(m))
            else:
                rows.append(rng.choice(base[:2]) if rng.random() < .5 else 0)
        yield case(f'{tag}{mode}', rows, m, SCHEMES[k % len(SCHEMES)], rng)


def tall(seed, count, tag='TALL'):
    """Many objects (40-220), few properties (2-6), dense, with duplicate / conjunction /
    full columns and duplicate rows: large extents relative to the number of properties."""
    rng = random.Random(f'{seed}/{tag}')
    for k in range(count):
        n, m = rng.randint(40, 220), rng.randint(2, 6)
        d = rng.choice([.5, .7, .85, .95, .98])
        rows = rnd_rows(rng, n, m, d)
        for deco in rng.sample(['meet_col', 'dup_col', 'full_col', 'dup_row', 'meet_col', 'empty_col'],
                               rng.randint(1, 3)):
            rows, m = decorate(rows, m, deco, rng)
        c = case(tag, rows, m, SCHEMES[k % len(SCHEMES)], rng)
        if k % 2:       # the transposed shape: few objects, many properties
            cols = [sum(((rows[i] >> j) & 1) << i for i in range(len(rows))) for j in range(m)]
            c = case(tag + 'T', cols, len(rows), SCHEMES[k % len(SCHEMES)], rng)
        yield c


def manyrows(seed, count, tag='MANYROWS'):
    """130-400 objects with (mostly) pairwise distinct rows over 8-9 properties, plus copies
    of early rows appended far away: duplicates separated by > 128 distinct rows."""
    rng = random.Random(f'{seed}/{tag}')
    for k in range(count):
        n, m = rng.randint(130, 400), rng.randint(8, 9)
        pool = rng.sample(range(1 << m), min(n, (1 << m) - 1))
        rows = [pool[i % len(pool)] for i in range(n)]
        for _ in range(rng.randint(1, 4)):
            rows.append(rows[rng.randrange(0, 20)])
        if k % 3 == 0:
            rows.insert(rng.randrange(len(rows)), (1 << m) - 1)
        yield case(tag, rows, m, SCHEMES[k % len(SCHEMES)], rng)


def longaxis(seed, count, tag='LONG'):
    """1 030-1 700 members on one axis, 3-5 on the other, rows from a few patterns: beyond any
    1 024 threshold yet cheap enough for the lattice-level properties."""
    rng = random.Random(f'{seed}/{tag}')
    for k in range(count):
        big, small = rng.randint(1030, 1700), rng.randint(3, 5)
        pats = [rng.getrandbits(small) for _ in range(rng.randint(3, 5))]
        rows = [rng.choice(pats) for _ in range(big)]
        for _ in range(5):
            rows[rng.randrange(1024, big)] = rng.getrandbits(small)
        if k % 2 == 0:
            yield case(tag + '-tall', rows, small, SCHEMES[k % 2])
        else:
            cols = [sum(((rows[i] >> j) & 1) << i for i in range(big)) for j in range(small)]
            yield case(tag + '-wide', cols, big, SCHEMES[k % 2])


def manyatoms(seed, count, tag='MANYATOMS'):
    """100-260 atoms: a (decorated) nominal-like scale - every object has its own property plus a few
    shared ones - with objects that have every property placed at the front, the middle or the end,
    duplicate rows and an object with no property."""
    rng = random.Random(f'{seed}/{tag}')
    for k in range(count):
        n = rng.randint(100, 260)
        shared = rng.randint(0, 3)
        m = n + shared
        rows = []
        for i in range(n):
            r = 1 << i
            for j in range(shared):
                if rng.random() < .5:
                    r |= 1 << (n + j)
            rows.append(r)
        full = (1 << m) - 1
        for _ in range(rng.randint(1, 3)):
            rows.insert(rng.choice([0, 0, len(rows) // 2, len(rows)]), full)
        if k % 2:
            rows.insert(rng.randrange(len(rows)), rows[rng.randrange(len(rows))])
        if k % 4 == 1:      # many atoms with several objects each: copies of many rows at shuffled positions
            for _ in range(rng.randint(n // 3, n)):
                rows.insert(rng.randrange(len(rows) + 1), rows[rng.randrange(len(rows))])
        elif k % 4 == 3:    # ... or mirrored: object i and object N-1-i share a row
            rows = rows + rows[::-1]
        if k % 3 == 0:
            rows.insert(rng.randrange(len(rows)), 0)
        yield case(tag, rows, m, SCHEMES[k % len(SCHEMES)], rng)


def repeated(seed, count, tag='REPEATED', lo=80, hi=500):
    """A small table (3-6 properties, 3-8 distinct rows) with every row repeated 80-500 times:
    large extents with the structure (joint implications, conjunction columns) of a small table."""
    rng = random.Random(f'{seed}/{tag}')
    for k in range(count):
        m = rng.randint(3, 6)
        base = rnd_rows(rng, rng.randint(3, 8), m, rng.choice([.4, .6, .8]))
        if k % 3 == 0:
            base, m = decorate(base, m, rng.choice(['meet_col', 'dup_col', 'full_col', 'meet_row']), rng)
        rows = []
        for r in base:
            rows += [r] * rng.randint(lo, hi)
        if k % 2:
            rng.shuffle(rows)
        yield case(tag, rows, m, SCHEMES[k % len(SCHEMES)], rng)


def huge(seed, count, tag='HUGE'):
    """Thousands of members on one axis (2 900 - 6 500), a handful on the other; rows drawn
    from a few patterns so that the lattice stays tiny.  Reaches bit positions far beyond
    machine words and beyond float precision."""
    rng = random.Random(f'{seed}/{tag}')
    for k in range(count):
        big, small = rng.randint(2900, 6500), rng.randint(2, 5)
        pats = [rng.getrandbits(small) for _ in range(rng.randint(2, 4))]
        rows = [rng.choice(pats) for _ in range(big)]
        for _ in range(6):      # a few special rows anywhere, in particular near the end
            rows[rng.randrange(big * 9 // 10, big)] = rng.getrandbits(small)
        if k % 4 == 2:      # long aligned runs of empty rows, then a few described ones; very sparse
            empty = rng.choice([4096, 8192, 4096 * 3, 1024, 2048])     # an aligned run of empty rows ...
            lead = rng.choice([0, 0, 4096]) if empty >= 4096 else rng.choice([0, 1024])
            tail = rng.randint(3, 40)                                  # ... then a few described ones
            big = lead + empty + tail
            rows = [0] * big
            for i in range(lead):
                rows[i] = rng.getrandbits(small) if rng.random() < .01 else 0
            for i in range(lead + empty, big):
                rows[i] = rng.getrandbits(small) or 1
        elif k % 4 == 3:
            big = rng.randint(5000, 13000) if k % 8 == 3 else rng.randint(17000, 30000)
            rows = [(rng.getrandbits(small) if rng.random() < .002 else 0) for _ in range(big)]
            rows[-1] = rows[-1] or 1
        if k % 2 == 0:
            yield case(tag + '-tall', rows, small, 'plain')
        else:
            cols = [sum(((rows[i] >> j) & 1) << i for i in range(big)) for j in range(small)]
            yield case(tag + '-wide', cols, big, 'plain')


def giant(seed, count, tag='HUGEGIANT', only=None):
    """Tens of thousands of members on one axis - beyond 2**13, 2**15 and 2**16, beyond the 4 300-digit
    limit of int <-> str conversion (14 285 bits) - and 3-6 on the other; rows from a few patterns (tiny
    lattice).  Variants: periodic patterns with special rows near the end; an aligned, strictly empty
    block of 32 768 rows followed by a few described ones; very sparse."""
    rng = random.Random(f'{seed}/{tag}')
    plan = [(40000, 'tall'), (8200, 'wide'), (33000, 'tall'), (15000, 'wide'), (66000, 'tall'), (33000, 'wide'),
            (14400, 'wide'), (70000, 'tall')]
    if only:
        plan = [p_ for p_ in plan if p_[1] == only]
    for k in range(count):
        big, orient = plan[k % len(plan)]
        big += rng.randint(0, 300)
        small = rng.randint(3, 6)
        kind = (k // len(plan) + k) % 3
        if kind == 0:
            pats = [rng.getrandbits(small) for _ in range(rng.randint(2, 4))]
            rows = [pats[(i * 7 + i // 5) % len(pats)] for i in range(big)]
            for _ in range(6):
                rows[rng.randrange(big * 9 // 10, big)] = rng.getrandbits(small)
            rows[-1] = rng.getrandbits(small) or 1
        elif kind == 1 and big > 33000:
            lead = rng.choice([0, 32768]) if big > 66000 else 0
            tail = big - lead - 32768
            rows = [0] * big
            for i in range(lead):
                rows[i] = rng.getrandbits(small) if rng.random() < .01 else 0
            for i in range(lead + 32768, big):
                rows[i] = (rng.getrandbits(small) or 1) if i % 97 == 0 or i >= big - 5 else 0
        else:
            rows = [(rng.getrandbits(small) if rng.random() < .001 else 0) for _ in range(big)]
            rows[-1] = rows[-1] or 1
            rows[big // 2] = (1 << small) - 1
        if orient == 'tall':
            yield case(f'{tag}-tall', rows, small, 'plain')
        else:
            cols = [sum(((rows[i] >> j) & 1) << i for i in range(big)) for j in range(small)]
            yield case(f'{tag}-wide', cols, big, 'plain')


def real(repo=None, max_cells=60000):
    """Every example file shipped with the repository, parsed by the independent readers."""
    import glob
    import os
    from . import refio
    repo = repo or os.environ.get('VERIF_REPO', '/repo')
    for path in sorted(glob.glob(os.path.join(repo, 'examples', '*'))):
        ext = os.path.splitext(path)[1].lower()
        reader = {'.cxt': refio.read_cxt, '.csv': refio.read_csv, '.txt': refio.read_table}.get(ext)
        if reader is None:
            continue
        try:
            with open(path, encoding='utf-8', newline='' if ext == '.csv' else None) as f:
                objects, properties, rows = reader(f.read())
        except Exception:
            continue
        if not objects or not properties or len(objects) * len(properties) > max_cells:
            continue
        if len(set(objects)) != len(objects) or len(set(properties)) != len(properties) \
                or set(objects) & set(properties):
            continue
        masks = [sum(1 << j for j, b in enumerate(r) if b) for r in rows]
        yield {'fam': 'REAL:' + os.path.basename(path), 'objects': list(objects),
               'properties': list(properties), 'rows': masks}


def deep(tier, seed=0):
    """Ordinal scales (chains) of 1 050-1 400 concepts, listed most-specific-first, most-general-first
    and shuffled: lattices that are *deep* rather than wide (recursion depth, stack sizes)."""
    rng = random.Random(f'{seed}/DEEP')
    for n in ([1100] if tier == 'quick' else [1050, 1250, 1400]):
        rows = [(f'o{i:04d}', ((1 << n) - 1) & ~((1 << i) - 1)) for i in range(n)]   # o_i has p_j for j >= i
        for order in ('specific-first', 'general-first', 'shuffled'):
            r = list(rows)
            if order == 'specific-first':
                r = r[::-1]
            elif order == 'shuffled':
                rng.shuffle(r)
            # the labels move with their rows: the three cases are the same context, reordered
            yield {'fam': f'DEEP:chain{n}:{order}', 'objects': [o for o, _ in r],
                   'properties': [f'p{j:04d}' for j in range(n)], 'rows': [m for _, m in r], 'deep': True}


def biglat(tier, sizes=(15, 16), quick_sizes=()):
    """Lattices with tens of thousands of concepts (thorough tier only): Boolean lattices of the
    contranominal scales 15 and 16 (32 768 / 65 536 concepts) - thresholds inside the
    enumeration/traversal code (table sizes, heap sizes) are only reached here."""
    for n in (sizes if tier == 'thorough' else quick_sizes):
        full = (1 << n) - 1
        yield case(f'BIGLAT:contranominal{n}', [full & ~(1 << i) for i in range(n)], n, 'rev')


def biglat_plus(n):
    """The contranominal scale n plus one isolated object / property pair: 2**n + 1 concepts, so the last
    concept has index 2**n exactly (one past what fits into n bits); Lindig builds 2**15 + 1 concepts in seconds."""
    full = (1 << n) - 1
    yield dict(case(f'BIGLAT:contranominal{n}+isolated', [full & ~(1 << i) for i in range(n)] + [1 << n], n + 1, 'rev'),
               n_concepts=(1 << n) + 1)


_MIAN_CHOWLA = [0, 1, 3, 7, 12, 20, 30, 44, 65, 80, 96, 122, 147, 181]    # a Sidon set: all differences distinct


def geom(seed, count, tag='GEOM'):
    """Incidence structures with a high fan-in: (a) circulant tables ``i I (i + s) mod n`` for s in a
    Sidon set of size k (any two objects share at most one property and vice versa: a flat lattice of
    2n + 2 concepts in which every atom has k upper covers and every co-atom k lower covers, k up to 12);
    (b) uniform hypergraphs: one object per t-subset of m properties (all of them or a random part):
    C(m, t) atoms under few co-atoms, a ranked lattice with binomially many members per level."""
    import itertools
    rng = random.Random(f'{seed}/{tag}')
    for k in range(count):
        if k % 2 == 0:
            size = 3 + (k // 2) % 10                      # 3 .. 12
            S = _MIAN_CHOWLA[:size]
            n = 2 * S[-1] + 1 + rng.randint(0, 9)
            rows = [sum(1 << ((i + s) % n) for s in S) for i in range(n)]
            if (k // 2) % 3 == 1:
                rng.shuffle(rows)
            yield case(f'{tag}:sidon{size}', rows, n, SCHEMES[k % len(SCHEMES)], rng)
        else:
            m = rng.randint(6, 13)
            t = rng.randint(2, min(4, m - 2))
            subsets = [sum(1 << j for j in c) for c in itertools.combinations(range(m), t)]
            if len(subsets) > 300:
                subsets = rng.sample(subsets, rng.randint(150, 300))
            elif rng.random() < .5:
                rng.shuffle(subsets)
            if (k // 2) % 3 == 2:                         # complements: every object lacks t properties
                subsets = [((1 << m) - 1) & ~x for x in subsets]
            c = case(f'{tag}:uniform{m}choose{t}', subsets, m, SCHEMES[k % len(SCHEMES)], rng)
            if (k // 2) % 2:
                cols = [sum(((subsets[i] >> j) & 1) << i for i in range(len(subsets))) for j in range(m)]
                c = case(f'{tag}:uniform{m}choose{t}T', cols, len(subsets), SCHEMES[k % len(SCHEMES)], rng)
            yield c


def stacked(seed, count, tag='STACKED'):
    """Vertical sums: a sequence of blocks, every object of a block has all properties of the blocks
    before it plus its own pattern inside the block; blocks are chains (ordinal scales of 20-70 steps)
    or small random tables.  The lattice is the blocks' lattices glued on top of each other: small
    (a few hundred concepts at most) but *deep*, with branching below, between and above long chains."""
    rng = random.Random(f'{seed}/{tag}')
    for k in range(count):
        blocks = []
        shape = ['chain', 'rnd'] if k % 3 == 0 else ['rnd', 'chain'] if k % 3 == 1 else ['chain', 'rnd', 'chain', 'rnd']
        for kind in shape:
            if kind == 'chain':
                L = rng.randint(20, 70) if len(shape) == 2 else rng.randint(12, 35)
                blocks.append(([(1 << i) - 1 for i in range(L + 1)], L))
            else:
                bn, bm = rng.randint(2, 6), rng.randint(2, 5)
                blocks.append((rnd_rows(rng, bn, bm, rng.choice([.3, .5, .7])), bm))
        rows, m = [], 0
        for brows, bm in blocks:
            below = (1 << m) - 1
            rows += [below | (r << m) for r in brows]
            m += bm
        if k % 4 == 2:
            rng.shuffle(rows)
        c = case(tag, rows, m, SCHEMES[k % len(SCHEMES)], rng)
        if k % 2:
            cols = [sum(((rows[i] >> j) & 1) << i for i in range(len(rows))) for j in range(m)]
            c = case(tag + 'T', cols, len(rows), SCHEMES[k % len(SCHEMES)], rng)
        yield c


def near(cases_, seed, per=3, tag='NEAR'):
    """One-cell flips and row/column swaps of given cases."""
    rng = random.Random(f'{seed}/{tag}')
    for c in cases_:
        n, m = len(c['objects']), len(c['properties'])
        for _ in range(per):
            rows = list(c['rows'])
            how = rng.randrange(3)
            if how == 0:
                i = rng.randrange(n)
                rows[i] ^= 1 << rng.randrange(m)
            elif how == 1 and n > 1:
                i, j = rng.sample(range(n), 2)
                rows[i], rows[j] = rows[j], rows[i]
            elif m > 1:
                a, b = rng.sample(range(m), 2)
                new = []
                for r in rows:
                    ba, bb = r >> a & 1, r >> b & 1
                    r &= ~(1 << a | 1 << b)
                    new.append(r | bb << a | ba << b)
                rows = new
            yield dict(c, fam=tag, rows=rows)


# --------------------------------------------------------------------------
# the standard context stream used by the lattice-family properties

def ctx_stream(tier, seed, *, scale=1.0, with_wide=True, max_rnd=None, with_huge=False):
    """Deterministic list of table cases for (tier, seed)."""
    yield from real()
    if tier == 'quick':
        yield from exh(3, 3)
        yield from rnd(seed, int(3200 * scale), *(max_rnd or (9, 9)))
        yield from struct(seed, [2, 3, 4, 5, 6])
        yield from via_variants(seed, int(240 * scale))
        yield from crc_twins(seed, int(16 * scale))
        if with_wide:
            yield from hash_twins(seed, int(8 * scale))
        yield from subclassed(seed, int(60 * scale))
        yield from tall(seed, int(60 * scale))
        if with_wide:
            yield from wide(seed, int(48 * scale))
        yield from manyrows(seed, int(12 * scale))
        if with_wide:
            yield from manyatoms(seed, int(6 * scale))
        yield from repeated(seed, int(8 * scale), lo=40, hi=150)     # Lindig is ~ |G|^2 per concept
        if with_wide:
            yield from geom(seed, int(20 * scale))
            yield from stacked(seed, int(16 * scale))
        yield from (c for c in longaxis(seed, 2) if with_wide or len(c['properties']) < 64)
        if with_huge:
            yield from huge(seed, 4)
            yield from giant(seed, 2)
    else:
        yield from exh(3, 3)
        yield from exh(0, 0, sizes=[(3, 4), (4, 3), (4, 4)] if scale >= 1 else [(3, 4), (4, 3)])
        yield from rnd(seed, int(50000 * scale), *(max_rnd or (14, 14)))
        yield from rnd(seed, int(20000 * scale), 7, 7, tag='RNDs')
        structs = list(struct(seed, [2, 3, 4, 5, 6, 7, 8, 9, 10]))
        yield from structs
        yield from near(structs[::3], seed, per=int(3 * scale) or 1)
        yield from via_variants(seed, int(4800 * scale))
        yield from crc_twins(seed, int(240 * scale))
        if with_wide:
            yield from hash_twins(seed, int(60 * scale))
        yield from subclassed(seed, int(1200 * scale))
        yield from tall(seed, int(2000 * scale))
        if with_wide:
            yield from wide(seed, int(1200 * scale))
        yield from manyrows(seed, int(300 * scale))
        if with_wide:
            yield from manyatoms(seed, int(80 * scale))
        yield from repeated(seed, int(150 * scale), lo=40, hi=220)
        if with_wide:
            yield from geom(seed, int(120 * scale))
            yield from stacked(seed, int(200 * scale))
        yield from (c for c in longaxis(seed, max(2, int(24 * scale))) if with_wide or len(c['properties']) < 64)
        if with_huge:
            yield from huge(seed, max(2, int(16 * scale)))
            yield from giant(seed, max(2, int(8 * scale)))


VIAS = ['fromdict', 'fromdict-raw', 'fromdict-raw-sorted', 'fromdict-raw-reversed', 'json', 'json-raw',
        'literal', 'pickle', 'pickle-lattice', 'pickle-member', 'deepcopy', 'copy', 'second-lattice',
        'edited-export-fromdict', 'edited-export-pickle', 'edited-export-json']


def via_variants(seed, count, tag='VIA'):
    """Small and medium tables whose context reaches the driver through a persistence route
    (``case['via']``, see ``props.common.via``): the property's whole workload then runs on a loaded /
    unpickled / copied context and on its *stored* lattice."""
    rng = random.Random(f'{seed}/{tag}')
    for k in range(count):
        n, m = rng.randint(1, 9), rng.randint(1, 9)
        rows = rnd_rows(rng, n, m, DENSITIES[k % len(DENSITIES)])
        if k % 3 == 0:
            rows, m = decorate(rows, m, rng.choice(DECORATIONS), rng)
        c = case(tag, rows, m, SCHEMES[k % 5], rng)
        c['via'] = VIAS[k % len(VIAS)]
        yield c


def subclassed(seed, count, tag='SUBCLASS'):
    """Tables whose context is an instance of a trivial user subclass of Context (``case['subclass']``),
    a third of them additionally through a persistence route."""
    rng = random.Random(f'{seed}/{tag}')
    for k in range(count):
        n, m = rng.randint(1, 8), rng.randint(1, 8)
        rows = rnd_rows(rng, n, m, DENSITIES[k % len(DENSITIES)])
        if k % 4 == 0:
            rows, m = decorate(rows, m, rng.choice(DECORATIONS), rng)
        c = case(tag, rows, m, SCHEMES[k % 5], rng)
        c['subclass'] = True
        if k % 3 == 0:
            c['via'] = ['fromdict', 'copy', 'pickle', 'json', 'literal', 'deepcopy', 'fromdict-raw'][k // 3 % 7]
        yield c


def _crc_twin(objects, properties, rows, rng):
    """Another table over the same labels whose table text has the same CRC-32 (CRC is affine over
    GF(2): a set of cell flips whose checksum differences cancel is found by elimination)."""
    import zlib
    from . import refio
    m = len(properties)

    def crc(rs):
        text = refio.write_table(objects, properties, [tuple(bool(r >> j & 1) for j in range(m)) for r in rs], style=0)
        return zlib.crc32(text.rstrip('\n').encode('utf-8'))
    base = crc(rows)
    cells = [(i, j) for i in range(len(rows)) for j in range(m)]
    rng.shuffle(cells)
    basis = {}
    for idx, (i, j) in enumerate(cells):
        rs = list(rows)
        rs[i] ^= 1 << j
        v, combo = crc(rs) ^ base, 1 << idx
        while v:
            hb = v.bit_length() - 1
            if hb not in basis:
                basis[hb] = (v, combo)
                break
            bv, bc = basis[hb]
            v ^= bv
            combo ^= bc
        else:
            twin = list(rows)
            for k, (a, b) in enumerate(cells):
                if combo >> k & 1:
                    twin[a] ^= 1 << b
            if twin != list(rows) and crc(twin) == base:
                return twin
    return None


def crc_twins(seed, count, tag='CRCTWIN'):
    """Pairs of different tables over the same labels with equal CRC-32 of the table text - the
    fingerprint ``Context`` shows in its repr.  ``case['twin_rows']`` is built and queried first."""
    rng = random.Random(f'{seed}/{tag}')
    shapes = [(6, 6), (7, 6), (6, 8), (8, 8), (5, 9), (9, 5), (3, 13), (13, 3), (7, 7), (9, 9), (4, 10), (10, 4)]
    made = 0
    for k in range(count * 3):
        if made >= count:
            break
        n, m = shapes[k % len(shapes)]
        rows = rnd_rows(rng, n, m, rng.choice([.3, .5, .7]))
        o, p = labels(n, m, ['plain', 'rev', 'shared', 'unicode', 'shuffled'][k % 5], rng)
        twin = _crc_twin(o, p, rows, rng)
        if twin is None:
            continue
        made += 1
        yield {'fam': tag, 'objects': o, 'properties': p, 'rows': rows, 'twin_rows': twin}


def hash_twins(seed, count, tag='HASHTWIN'):
    """Pairs of different tables over the same labels whose rows, read as integers, are pairwise congruent
    modulo 2**61 - 1 (CPython's hash modulus): bits k and k + 61 of every row exchanged for a few k, so
    ``hash()`` of the row ints, of tuples and of frozensets of them agree although the tables differ."""
    rng = random.Random(f'{seed}/{tag}')
    for k in range(count):
        n, m = rng.randint(3, 9), rng.choice([63, 66, 70, 75, 124, 130])
        rows = rnd_rows(rng, n, m, rng.choice([.3, .5]))
        twin = list(rows)
        for j in rng.sample(range(m - 61), rng.randint(1, min(4, m - 61))):
            for i, r in enumerate(twin):
                lo, hi = r >> j & 1, r >> (j + 61) & 1
                if lo != hi:
                    twin[i] = r ^ (1 << j) ^ (1 << (j + 61))
        if twin == rows:
            continue
        o, p = labels(n, m, ['plain', 'rev', 'shuffled'][k % 3], rng)
        yield {'fam': tag, 'objects': o, 'properties': p, 'rows': rows, 'twin_rows': twin}


def table_key(c):
    return (tuple(c['objects']), tuple(c['properties']), tuple(c['rows']))


def bools_of(c):
    m = len(c['properties'])
    return [tuple(bool(r >> j & 1) for j in range(m)) for r in c['rows']]


# --------------------------------------------------------------------------
# argument samplers

def subsets_of(items, rng, *, all_below=10, sampled=40):
    """All subsets when few items, else {}, singletons, all, and random ones.

    On long axes (> 48 items) the singletons are sampled: every word/digit boundary
    position, the last positions and a random sample - so that high bit positions are
    reached within a small call budget."""
    items = list(items)
    n = len(items)
    if n <= all_below:
        for mask in range(1 << n):
            yield [items[i] for i in range(n) if mask >> i & 1]
        return
    yield []
    if n <= 48:
        singles = range(n)
    else:
        pos = {p for p in BOUNDARY_POS if p < n} | {n - 1, n - 2, n // 2}
        pos |= {rng.randrange(n) for _ in range(24)}
        pos |= {rng.randrange(n * 9 // 10, n) for _ in range(12)}
        singles = sorted(pos)
    for i in singles:
        yield [items[i]]
    yield items
    for _ in range(sampled):
        k = rng.choice([2, 3, rng.randint(1, min(n, 40)), max(1, n - 2)])
        yield rng.sample(items, min(k, n))


def disguise(arg, rng):
    """The same set of labels in another order / container, with repeats."""
    arg = list(arg)
    how = rng.randrange(6)
    if how == 0:
        rng.shuffle(arg)
        return arg
    if how == 1:
        return tuple(reversed(arg))
    if how == 2:
        return arg + arg[:2] + arg[-1:]
    if how == 3:
        return iter(list(arg))
    if how == 4:
        return set(arg)
    return dict.fromkeys(arg).keys()
