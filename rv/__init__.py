"""Runtime-verification harness for xflr6/concepts (see /verif/DESIGN.md).

Nothing in this package imports ``concepts`` at import time; ``rv.attach.load``
imports it from ``VERIF_REPO`` and the monitors are attached afterwards.
"""
