"""Load ``concepts`` from VERIF_REPO and attach monitors by identity patching.

No line of the repository is changed: a monitor is a wrapper that replaces
*every* binding of the original function object in every ``concepts.*`` module
and in every class defined there (aliases such as ``Concept.__or__ = join`` and
re-exports such as ``algorithms.fast_generate_from`` included).
"""

import functools
import importlib
import os
import pkgutil
import sys
import types
import weakref

from . import core, faults
from .core import COL, HarnessError
from .shadow import Shadow

REPO = os.environ.get('VERIF_REPO', '/repo')

_state = {'concepts': None, 'modules': None, 'bindings': {}}


def load(repo=None):
    """Import ``concepts`` from ``repo`` (first on sys.path) and verify it."""
    repo = os.path.realpath(repo or REPO)
    if _state['concepts'] is not None:
        return _state['concepts']
    if repo in sys.path:
        sys.path.remove(repo)
    sys.path.insert(0, repo)
    import concepts
    where = os.path.realpath(concepts.__file__)
    if not where.startswith(repo + os.sep):
        raise HarnessError(f'wrong tree imported: {where} is not under {repo}')
    mods = [concepts]
    for info in pkgutil.walk_packages(concepts.__path__, 'concepts.'):
        mods.append(importlib.import_module(info.name))
    _state['concepts'] = concepts
    _state['modules'] = mods
    return concepts


def modules():
    return _state['modules']


def _classes():
    seen = set()
    for mod in modules():
        for v in list(vars(mod).values()):
            if isinstance(v, type) and getattr(v, '__module__', '').startswith('concepts') \
                    and id(v) not in seen:
                seen.add(id(v))
                yield v


def _unwrap(value):
    if isinstance(value, (staticmethod, classmethod)):
        return value.__func__, type(value)
    return value, None


def replace_everywhere(orig, new):
    """Replace every module/class binding that *is* ``orig``; return names."""
    hit = []
    for ns_owner in list(modules()) + list(_classes()):
        for name, value in list(vars(ns_owner).items()):
            func, deco = _unwrap(value)
            if func is orig:
                setattr(ns_owner, name, deco(new) if deco else new)
                hit.append(f'{getattr(ns_owner, "__name__", ns_owner)}.{name}')
    return hit


class Monitor:
    """Base class: override ``before``/``after``/``raised``.

    ``before`` may return a token handed to ``after``/``raised``.  ``after`` may
    return a replacement result (e.g. a recording generator proxy) by returning
    ``Replace(obj)``; any other return value is ignored.
    """

    name = '?'

    def before(self, args, kwargs):
        return None

    def after(self, token, args, kwargs, result):
        return None

    def raised(self, token, args, kwargs, exc):
        return None


class Replace:
    def __init__(self, value):
        self.value = value


class Args:
    """Returned by ``before`` to hand on equivalent arguments (e.g. a fresh
    one-shot iterator over the items of a one-shot iterator the monitor read)."""

    def __init__(self, token, args, kwargs):
        self.token, self.args, self.kwargs = token, args, kwargs


def attach(owner, name, monitor):
    """Wrap ``owner.name`` (function, staticmethod or classmethod) everywhere.

    ``owner`` is a module or a (public) class; for a class the defining class is
    looked up along the MRO, so that the harness does not depend on how the library
    splits its classes into mixins."""
    if isinstance(owner, type) and name not in vars(owner):
        for klass in owner.__mro__:
            if name in vars(klass) and getattr(klass, '__module__', '').startswith('concepts'):
                owner = klass
                break
    raw = vars(owner)[name]
    orig, deco = _unwrap(raw)
    if getattr(orig, '__rv_wrapper__', False):
        # already wrapped by another monitor: chain
        pass
    if not callable(orig):
        raise HarnessError(f'{owner}.{name} is not callable')
    qual = f'{getattr(owner, "__name__", owner)}.{name}'
    monitor.name = monitor.name if monitor.name != '?' else qual
    col = core.COL

    @functools.wraps(orig)
    def wrapper(*args, **kwargs):
        if col.depth:
            return orig(*args, **kwargs)
        low = col.low_limit
        if low:                     # monitor code runs with the normal limit, the library with the low one
            sys.setrecursionlimit(col.high_limit)
        fired0 = faults.fired()
        col.depth += 1
        try:
            try:
                token = monitor.before(args, kwargs)
                if isinstance(token, Args):
                    token, args, kwargs = token.token, token.args, token.kwargs
            except core.CaseTooLarge:
                col.counters['skipped_too_large_events'] += 1
                token = None
            except Exception as e:
                col.harness_error(f'{qual}.before', e)
                token = None
        finally:
            col.depth -= 1
        try:
            if low:
                sys.setrecursionlimit(low)
            result = orig(*args, **kwargs)
        except core.CaseTimeout:
            if low:
                sys.setrecursionlimit(col.high_limit)
            raise
        except BaseException as exc:
            if low:
                sys.setrecursionlimit(col.high_limit)
            if faults.fired() != fired0 or (low and isinstance(exc, RecursionError)) \
                    or (col.env_fault and isinstance(exc, col.env_fault)):
                # the call was cut short by the harness (injected exception / hardly any stack left):
                # it is not judged; whatever is asked afterwards is
                col.counters['calls_cut_short_not_judged'] += 1
                if low:
                    sys.setrecursionlimit(low)
                raise
            col.depth += 1
            try:
                monitor.raised(token, args, kwargs, exc)
            except core.CaseTooLarge:
                pass
            except Exception as e:
                col.harness_error(f'{qual}.raised', e)
            finally:
                col.depth -= 1
                if low:
                    sys.setrecursionlimit(low)
            raise
        if low:
            sys.setrecursionlimit(col.high_limit)
        col.depth += 1
        try:
            rep = monitor.after(token, args, kwargs, result)
            if isinstance(rep, Replace):
                result = rep.value
        except core.CaseTooLarge:
            col.counters['skipped_too_large_events'] += 1
        except core.CaseTimeout:
            raise
        except Exception as e:
            col.harness_error(f'{qual}.after', e)
        finally:
            col.depth -= 1
            if low:
                sys.setrecursionlimit(low)
        return result

    wrapper.__rv_wrapper__ = True
    wrapper.__rv_orig__ = orig
    hits = replace_everywhere(orig, wrapper)
    if not hits:
        raise HarnessError(f'no binding replaced for {qual}')
    _state['bindings'][qual] = hits
    col.counters['bindings_replaced'] += len(hits)
    return hits


def bindings():
    return _state['bindings']


# ---------------------------------------------------------------------------
# shadow registry: one Shadow per live Context, keyed by id() with finaliser

_shadows = {}


def _forget(key):
    _shadows.pop(key, None)


def register_shadow(ctx, shadow, how):
    key = id(ctx)
    try:
        ref = weakref.ref(ctx)
        weakref.finalize(ctx, _forget, key)
    except TypeError:
        return shadow
    _shadows[key] = (shadow, how, ref)
    return shadow


def shadow_of(ctx):
    """Shadow of a live context; adopted from its public triple if unseen."""
    ent = _shadows.get(id(ctx))
    if ent is not None and ent[2]() is ctx:
        return ent[0]
    with core.monitor_code():
        sh = Shadow.from_bools(ctx.objects, ctx.properties, ctx.bools)
    COL.count('shadows_adopted')
    return register_shadow(ctx, sh, 'adopted')


def shadow_how(ctx):
    ent = _shadows.get(id(ctx))
    return ent[1] if ent and ent[2]() is ctx else None


class CtorMonitor(Monitor):
    """Context.__init__: build the shadow from the *arguments* of the call."""

    def before(self, args, kwargs):
        # materialise one-shot label iterables once and hand the tuples on is
        # not possible from here (args are passed through); the workloads only
        # pass sequences, and the repo's own callers pass lists/tuples.
        return None

    def after(self, token, args, kwargs, result):
        try:
            self_, objects, properties, bools = _ctor_args(args, kwargs)
        except Exception:
            COL.count('ctor_args_unparsed')
            return
        if not isinstance(objects, (list, tuple)) or not isinstance(properties, (list, tuple)):
            COL.count('ctor_non_sequence_labels')
            return  # adopted lazily from the public triple instead
        try:
            sh = Shadow.from_bools(objects, properties, bools)
        except Exception:
            COL.count('ctor_shadow_failed')
            return
        register_shadow(self_, sh, 'ctor')
        COL.count('shadows_from_ctor')


def _ctor_args(args, kwargs):
    names = ('self', 'objects', 'properties', 'bools')
    vals = dict(zip(names, args))
    vals.update(kwargs)
    return tuple(vals[n] for n in names)


def attach_ctor(concepts):
    attach(concepts.Context, '__init__', CtorMonitor())


# ---------------------------------------------------------------------------
# helpers used by several monitors

def has_lattice(ctx):
    return 'lattice' in vars(ctx)


def concept_pair(c):
    """(extent labels, intent labels) of a lattice member via public API."""
    return tuple(c.extent), tuple(c.intent)
