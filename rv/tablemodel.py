"""Ordered-table reference model of ``concepts.Definition`` (plain lists + a set).

``apply(op, *args)`` returns one of
    ('ok', return_value)      - the model changed itself accordingly
    ('reject', why)           - the call must raise and leave the definition unchanged
    ('unspecified', why)      - the property does not pin the outcome (not judged)
``return_value`` is ``SELF`` for operations returning the receiver.
"""

SELF = object()


class Reject(Exception):
    pass


class Unspecified(Exception):
    pass


def _names(seq):
    """Argument that must be a re-iterable sequence of hashable names."""
    if isinstance(seq, (str, bytes)):
        raise Unspecified('a bare string as name list')
    try:
        if iter(seq) is seq:
            raise Unspecified('one-shot iterator as name list')
        out = list(seq)
        for x in out:
            hash(x)
    except TypeError:
        raise Unspecified('not an iterable of hashable names')
    return out


class TableModel:

    def __init__(self, objects=(), properties=(), bools=()):
        self.objects = list(objects)
        self.properties = list(properties)
        self.cells = {(o, p) for o, row in zip(self.objects, bools)
                      for p, b in zip(self.properties, row) if b}

    def copy(self):
        m = TableModel()
        m.objects, m.properties, m.cells = self.objects[:], self.properties[:], set(self.cells)
        return m

    def triple(self):
        return (tuple(self.objects), tuple(self.properties),
                [tuple((o, p) in self.cells for p in self.properties) for o in self.objects])

    def key(self):
        return (tuple(self.objects), tuple(self.properties),
                tuple(sorted((self.objects.index(o), self.properties.index(p)) for o, p in self.cells)))

    # -- helpers ------------------------------------------------------------
    def _add_o(self, o):
        if o not in self.objects:
            self.objects.append(o)

    def _add_p(self, p):
        if p not in self.properties:
            self.properties.append(p)

    def conflicts(self, other):
        so, sp = set(self.objects) & set(other.objects), set(self.properties) & set(other.properties)
        return [(o, p) for o in so for p in sp if ((o, p) in self.cells) != ((o, p) in other.cells)]

    # -- operations ----------------------------------------------------------
    def apply(self, op, *args, **kwargs):
        work = self.copy()
        try:
            ret = getattr(work, 'op_' + op)(*args, **kwargs)
        except Reject as e:
            return ('reject', str(e))
        except Unspecified as e:
            return ('unspecified', str(e))
        self.objects, self.properties, self.cells = work.objects, work.properties, work.cells
        return ('ok', ret)

    def op___setitem__(self, pair, value):
        if isinstance(pair, int):
            raise Reject('integer key')
        try:
            o, p = pair
            hash(o), hash(p)
        except (TypeError, ValueError):
            raise Unspecified('key is not a pair of names')
        self._add_o(o)
        self._add_p(p)
        if value:
            self.cells.add((o, p))
        else:
            self.cells.discard((o, p))

    def _rename(self, names, old, new, axis):
        if old not in names:
            raise Reject('unknown name')
        if old == new:
            raise Unspecified('rename to itself')
        if new in names:
            raise Reject('clashing name')
        names[names.index(old)] = new
        if axis == 0:
            self.cells = {((new if o == old else o), p) for o, p in self.cells}
        else:
            self.cells = {(o, (new if p == old else p)) for o, p in self.cells}

    def op_rename_object(self, old, new):
        self._rename(self.objects, old, new, 0)

    def op_rename_property(self, old, new):
        self._rename(self.properties, old, new, 1)

    def _move(self, names, name, index):
        if name not in names:
            raise Reject('unknown name')
        if not isinstance(index, int) or isinstance(index, bool):
            raise Unspecified('non-int index')
        if not 0 <= index < len(names):
            raise Unspecified('index outside 0..len-1')
        names.remove(name)
        names.insert(index, name)

    def op_move_object(self, obj, index):
        self._move(self.objects, obj, index)

    def op_move_property(self, prop, index):
        self._move(self.properties, prop, index)

    def op_add_object(self, obj, properties=()):
        props = _names(properties)
        self._add_o(obj)
        for p in props:
            self._add_p(p)
            self.cells.add((obj, p))

    def op_add_property(self, prop, objects=()):
        objs = _names(objects)
        self._add_p(prop)
        for o in objs:
            self._add_o(o)
            self.cells.add((o, prop))

    def op_remove_object(self, obj):
        if obj not in self.objects:
            raise Reject('unknown name')
        self.objects.remove(obj)
        self.cells = {(o, p) for o, p in self.cells if o != obj}

    def op_remove_property(self, prop):
        if prop not in self.properties:
            raise Reject('unknown name')
        self.properties.remove(prop)
        self.cells = {(o, p) for o, p in self.cells if p != prop}

    def op_remove_empty_objects(self):
        full = {o for o, _ in self.cells}
        gone = [o for o in self.objects if o not in full]
        self.objects = [o for o in self.objects if o in full]
        return gone

    def op_remove_empty_properties(self):
        full = {p for _, p in self.cells}
        gone = [p for p in self.properties if p not in full]
        self.properties = [p for p in self.properties if p in full]
        return gone

    def op_set_object(self, obj, properties):
        props = _names(properties)
        self._add_o(obj)
        for p in props:
            self._add_p(p)
        self.cells = {(o, p) for o, p in self.cells if o != obj} | {(obj, p) for p in props}

    def op_set_property(self, prop, objects):
        objs = _names(objects)
        self._add_p(prop)
        for o in objs:
            self._add_o(o)
        self.cells = {(o, p) for o, p in self.cells if p != prop} | {(o, prop) for o in objs}

    def op_union_update(self, other, ignore_conflicts=False):
        if not isinstance(other, TableModel):
            raise Unspecified('other is not a definition')
        if not ignore_conflicts and self.conflicts(other):
            raise Reject('conflicting cells')
        for o in other.objects:
            self._add_o(o)
        for p in other.properties:
            self._add_p(p)
        self.cells |= other.cells

    def op_intersection_update(self, other, ignore_conflicts=False):
        if not isinstance(other, TableModel):
            raise Unspecified('other is not a definition')
        if not ignore_conflicts and self.conflicts(other):
            raise Reject('conflicting cells')
        self.objects = [o for o in self.objects if o in other.objects]
        self.properties = [p for p in self.properties if p in other.properties]
        self.cells &= other.cells

    def op___ior__(self, other):
        self.op_union_update(other)
        return SELF

    def op___iand__(self, other):
        self.op_intersection_update(other)
        return SELF

    # -- derived tables (C14) ---------------------------------------------------
    def derived(self, op, *args, **kwargs):
        """('ok', TableModel) | ('reject', why) | ('unspecified', why)"""
        try:
            return ('ok', getattr(self, 'der_' + op)(*args, **kwargs))
        except Reject as e:
            return ('reject', str(e))
        except Unspecified as e:
            return ('unspecified', str(e))

    def der_copy(self):
        return self.copy()

    def der_union(self, other, ignore_conflicts=False):
        m = self.copy()
        m.op_union_update(other, ignore_conflicts)
        return m

    def der_intersection(self, other, ignore_conflicts=False):
        m = self.copy()
        m.op_intersection_update(other, ignore_conflicts)
        return m

    def der_transposed(self):
        m = TableModel()
        m.objects, m.properties = self.properties[:], self.objects[:]
        m.cells = {(p, o) for o, p in self.cells}
        return m

    def der_inverted(self):
        m = self.copy()
        m.cells = {(o, p) for o in self.objects for p in self.properties} - self.cells
        return m

    def der_take(self, objects=None, properties=None, reorder=False):
        objs = None if objects is None else _names(objects)
        props = None if properties is None else _names(properties)
        if (objs and any(o not in self.objects for o in objs)) or \
                (props and any(p not in self.properties for p in props)):
            raise Reject('unknown name')
        def pick(mine, wanted):
            if wanted is None:
                return mine[:]
            if reorder:
                out = []
                for x in wanted:
                    if x not in out:
                        out.append(x)
                return out
            return [x for x in mine if x in wanted]
        m = TableModel()
        m.objects, m.properties = pick(self.objects, objs), pick(self.properties, props)
        m.cells = {(o, p) for o, p in self.cells if o in m.objects and p in m.properties}
        return m
