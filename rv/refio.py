"""Independent readers/writers for the text formats, written from the format
descriptions (not from the library's code): table, cxt (Burmeister), csv,
wiki-table, FIMI.  Readers return ``(objects, properties, rows)`` with rows as
lists of bools, or raise ``Malformed``.
"""

import ast
import csv
import io
import re


class Malformed(Exception):
    pass


# -- representability predicates of property C12 --------------------------------

def _plain(label):
    return (isinstance(label, str) and label != '' and label == label.strip()
            and '\n' not in label and '\r' not in label)


def rep_cxt(label):
    return _plain(label)


def rep_table(label):
    return _plain(label) and '|' not in label and '#' not in label


def rep_wiki(label):
    return _plain(label) and '|' not in label and '!' not in label


def rep_csv(label):
    return isinstance(label, str) and label != '' and '\x00' not in label


def rep_literal(label):
    return isinstance(label, str)


REPRESENTABLE = {'table': rep_table, 'cxt': rep_cxt, 'csv': rep_csv, 'python-literal': rep_literal,
                 'wiki-table': rep_wiki, 'fimi': lambda l: True}

SUFFIX = {'.cxt': 'cxt', '.csv': 'csv', '.txt': 'table', '.py': 'python-literal', '.dat': 'fimi'}


def canonical_format(name):
    name = str(name).lower()
    return {'wikitable': 'wiki-table'}.get(name, name)


# -- readers ----------------------------------------------------------------------

def read_table(text):
    lines = []
    for line in text.split('\n'):
        hash_at = line.find('#')
        if hash_at >= 0:
            line = line[:hash_at]
        line = line.strip()
        if line:
            lines.append(line)
    if len(lines) < 2:
        raise Malformed('table needs a header and one row')

    def cells(line):
        parts = line.split('|')
        if parts and parts[-1].strip() == '':      # closing bar
            parts = parts[:-1]
        return parts
    head = cells(lines[0])
    if not head or head[0].strip() != '':
        raise Malformed('corner cell is not blank')
    properties = [c.strip() for c in head[1:]]
    objects, rows = [], []
    for line in lines[1:]:
        parts = cells(line)
        objects.append(parts[0].strip())
        flags = [c.strip() != '' for c in parts[1:]]
        # a row may omit trailing blank cells only if the closing bar is missing; the
        # library always writes all cells, an independent writer too
        if len(flags) != len(properties):
            raise Malformed(f'row with {len(flags)} cells for {len(properties)} properties')
        rows.append(flags)
    return objects, properties, rows


def read_cxt(text):
    lines = text.split('\n')
    while lines and lines[-1] == '':
        lines.pop()
    if len(lines) < 5 or lines[0].strip() != 'B':
        raise Malformed('no Burmeister header')
    # the two counts are plain decimal numbers (int() would also take '1_000', '+3', '٣')
    if not all(re.fullmatch(r'[ \t]*[0-9]+[ \t]*', lines[k]) for k in (2, 3)):
        raise Malformed('counts')
    n, m = int(lines[2]), int(lines[3])
    body = lines[5:] if lines[4].strip() == '' else lines[4:]
    if len(body) != n + m + n:
        raise Malformed(f'{len(body)} lines for {n}+{m}+{n}')
    objects = body[:n]
    properties = body[n:n + m]
    rows = []
    for line in body[n + m:]:
        line = line.strip()
        if len(line) != m or any(ch not in 'X.x' for ch in line):
            raise Malformed('row')
        rows.append([ch in 'Xx' for ch in line])
    return objects, properties, rows


def read_csv(text, dialect='excel'):
    reader = csv.reader(io.StringIO(text, newline=''), dialect=dialect)
    table = list(reader)
    if len(table) < 2:
        raise Malformed('csv needs a header and one row')
    properties = table[0][1:]
    objects, rows = [], []
    symbols = {c for r in table[1:] for c in r[1:]}
    if symbols <= {'X', ''}:
        true = 'X'
    elif symbols <= {'1', '0'}:
        true = '1'
    else:
        raise Malformed(f'mixed cell symbols {sorted(symbols)}')
    for r in table[1:]:
        if len(r) != len(properties) + 1:
            raise Malformed('ragged csv row')
        objects.append(r[0])
        rows.append([c == true for c in r[1:]])
    return objects, properties, rows


def read_wiki(text):
    lines = text.split('\n')
    while lines and lines[-1] == '':
        lines.pop()
    if len(lines) < 4 or not lines[0].startswith('{|') or lines[-1] != '|}':
        raise Malformed('wiki table frame')
    if lines[1] != '!':
        raise Malformed('corner')
    if not lines[2].startswith('!'):
        raise Malformed('header')
    properties = lines[2][1:].split('!!')
    body = lines[3:-1]
    if len(body) % 3:
        raise Malformed('rows')
    objects, rows = [], []
    for k in range(0, len(body), 3):
        sep, obj, cellsline = body[k:k + 3]
        if sep != '|-' or not obj.startswith('!') or not cellsline.startswith('|'):
            raise Malformed('row structure')
        objects.append(obj[1:])
        cells = cellsline[1:].split('||')
        if len(cells) != len(properties):
            raise Malformed('cell count')
        rows.append([c.strip() == 'X' for c in cells])
    return objects, properties, rows


def read_fimi(text):
    """Rows of true column indexes (one line per row)."""
    lines = text.split('\n')
    if lines and lines[-1] == '':
        lines.pop()
    out = []
    for line in lines:
        line = line.rstrip('\r')
        out.append(tuple(int(x) for x in line.split(' ') if x != ''))
    return out


def read_literal(text):
    d = ast.literal_eval(text)
    objects, properties = list(d['objects']), list(d['properties'])
    rows = [[j in set(r) for j in range(len(properties))] for r in d['context']]
    return objects, properties, rows


def reader_for(fmt, **kw):
    if fmt == 'table':
        return read_table
    if fmt == 'cxt':
        return read_cxt
    if fmt == 'csv':
        return lambda t: read_csv(t, kw.get('dialect') or 'excel')
    if fmt == 'wiki-table':
        return read_wiki
    if fmt == 'python-literal':
        return read_literal
    return None


# -- writers ------------------------------------------------------------------------

def write_table(objects, properties, rows, style=0, rng=None):
    """style 0: canonical (left-aligned, closing bar); 1: right-aligned cells as in the
    shipped EXAMPLE; 2: extra padding + trailing blanks; 3: comments and blank lines."""
    wo = max(len(o) for o in objects)
    pad = 2 if style == 2 else 0
    widths = [max(len(p), 1) + pad for p in properties]
    just = (lambda s, w: s.rjust(w)) if style == 1 else (lambda s, w: s.ljust(w))
    out = []
    if style == 3:
        out += ['# a comment line', '']
    out.append(' ' * (wo + pad) + '|' + '|'.join(just(p, w) for p, w in zip(properties, widths)) + '|')
    for o, row in zip(objects, rows):
        line = just(o, wo + pad) if style != 1 else o.ljust(wo + pad)
        line += '|' + '|'.join(just('X' if b else '', w) for b, w in zip(row, widths)) + '|'
        if style == 2:
            line += '   '
        if style == 3:
            line += '  # trailing comment'
        out.append(line)
        if style == 3:
            out.append('')
    return '\n'.join(out) + '\n'


def write_cxt(objects, properties, rows, style=0):
    out = ['B', '', str(len(objects)), str(len(properties)), '']
    out += list(objects) + list(properties)
    out += [''.join('X' if b else '.' for b in row) for row in rows]
    text = '\n'.join(out) + '\n'
    if style == 1:
        text = text + '\n'          # trailing blank line
    return text


def write_csv(objects, properties, rows, dialect='excel', as_int=False, header=''):
    buf = io.StringIO(newline='')
    w = csv.writer(buf, dialect=dialect)
    w.writerow([header] + list(properties))
    sym = {True: '1', False: '0'} if as_int else {True: 'X', False: ''}
    for o, row in zip(objects, rows):
        w.writerow([o] + [sym[bool(b)] for b in row])
    return buf.getvalue()
