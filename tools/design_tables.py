#!/usr/bin/env python3
"""Regenerate the seeded-change table of DESIGN.md (between the SEEDED-TABLE markers)
from seeded/*/meta.json (verification records written by tools/record_seeded.py)."""
import glob, json, os, re
ROOT = os.path.dirname(os.path.dirname(os.path.abspath(__file__)))
rows = []
n = caught = 0
for d in sorted(glob.glob(os.path.join(ROOT, 'seeded', 'C*-[a-z]'))):
    id = os.path.basename(d)
    m = json.load(open(d + '/meta.json'))
    v = m.get('verified_by_harness_author', {})
    needs = re.sub(r'\s+', ' ', m.get('needs', '')).replace('|', '/')[:170]
    summ = re.sub(r'\s+', ' ', m.get('summary', '')).replace('|', '/')[:150]
    c = v.get('caught_by') or []
    n += 1
    if c:
        caught += 1
        txt = (v.get('quick_check_result') or {}).get(c[0], '')
        ms = ', '.join(dict.fromkeys(re.findall(r'mechanism=([^\s;]+)', txt)))[:120]
        tier = v.get('tier', 'quick')
        cell = f"**{', '.join(c)}** ({tier}): `{ms}`"
    else:
        cell = '**not caught** — ' + v.get('not_caught_because', '?')
    if v.get('note'):
        cell += ' — ' + v['note']
    rows.append(f'| {id} | {summ} | {needs} | {cell} |')
tbl = ('| Seeded change | What it does | What it needs to manifest | Caught by |\n|---|---|---|---|\n' + '\n'.join(rows)
       + f'\n\n({n} seeded changes, {caught} caught.)')
p = os.path.join(ROOT, 'DESIGN.md')
s = open(p).read()
b, e = '<!-- SEEDED-TABLE-BEGIN -->', '<!-- SEEDED-TABLE-END -->'
s = s[:s.index(b) + len(b)] + '\n' + tbl + '\n' + s[s.index(e):]
open(p, 'w').write(s)
print(n, 'rows,', caught, 'caught')
