#!/usr/bin/env python3
"""Regenerate MANIFEST.json from the property modules' META (keeps it valid)."""
import json, os, sys
ROOT = os.path.dirname(os.path.dirname(os.path.abspath(__file__)))
sys.path.insert(0, ROOT)
import importlib

TECH = {
 'C01': 'call monitors on Context.intension/extension judged against an independent bit-mask model of the table (reference-model runtime monitor)',
 'C02': 'call monitors on Context.__getitem__, Lattice.__getitem__/__call__ + per-receiver trace rules (extensive/monotone/idempotent)',
 'C03': 'construction hook + recording iterator proxies judged against the row-intersection closure of the shadow model',
 'C04': 'recording generator proxies on fast_generate_from/fcbo_dual/iterconcepts/get_concepts judged against the shadow concept set',
 'C05': 'structural invariant at quiescent points (construction, load, unpickle) + call monitor on Context.neighbors; covers by definition',
 'C06': 'structural invariant at quiescent points re-checked during multi-lattice sessions; ranks by definition',
 'C07': 'call monitors (identity of the result) against lub/glb by definition + algebraic trace laws over the event log',
 'C08': 'call monitors on the 8 predicates (and operator aliases) judged against set predicates on shadow extents; antisymmetry over the trace',
 'C09': 'recording generator proxies on upset/downset/upset_union/downset_union judged at exhaustion or abandonment',
 'C10': 'structural invariant at quiescent points + call monitors on str(); object/attribute concepts by definition',
 'C11': 'call monitors on todict/fromdict + structural monitors on loaded/unpickled lattices + offline digest comparison across interpreter processes',
 'C12': 'call monitors on every text-format entry point judged by independent readers/writers; driver-side round-trip oracle',
 'C13': 'online model-following monitor (ordered-table model per live Definition) + state invariants after every mutator event; exhaustive BFS of the real object over a bounded universe',
 'C14': 'model-following monitors on derivations + global "all live definitions equal their models" aliasing invariant after every event',
 'C15': 'offline relational checker over two recorded observation logs (metamorphic: permutation, transposition, duplication)',
 'C16': 'call monitors on Context.relations and its text forms judged against classification from the shadow columns',
 'C17': 'offline equality of recorded event streams from K interpreter processes with different PYTHONHASHSEED',
 'C18': 'recording generator proxy on Concept.attributes + call monitor on minimal() against brute-force subset enumeration',
 'C19': 'call monitors on Context.__init__/fromdict (incl. outcome after a raise) against the validity predicate, driven by single/double corruptions',
 'C20': 'call monitor on Lattice.graphviz with an independent DOT line parser and recording label callbacks',
}
NOTE = ('Held-on-observed only: the monitors decide the executions the workload produced. Trusted base: CPython, '
        'the harness in /verif/rv (shadow model, independent readers) and the public accessors of bitsets/graphviz '
        'through which results are decoded. Workloads common to the lattice-family checks (DESIGN 1.3/1.6): contexts that '
        'came through 16 persistence routes, CRC-32 / hash twins, user subclasses, edits of returned containers, re-entrant '
        'argument collections, generators closed or thrown into, read-only queries cut short by injected exceptions or made '
        'with little stack left (fault injection; the aborted call is never judged, everything after it is), shards under '
        '-O and under library-warnings-as-errors / -bb / -X dev. Round 10/11 additions (DESIGN 1.6): exports / loads / persistence '
        'attempts failed by the environment (missing directory, full device, codec, dialect that cannot quote) or refused for a '
        'legitimate reason before the judged calls, sources edited after refused derivations, first traversals given up early, '
        'the same ill-formed arguments submitted again, stateful label callables reused, hash / CRC twin tables and texts in C12, '
        'C14 and C19. Round 14/15 additions (DESIGN 8.6): orders of use - cheap public reads (statistics, printing, comparison, '
        'exports, one derivation, one generator step, pickling) on a new context before the driver asks anything, sibling lattices '
        'over the same context (shallow copy, second Lattice(context), pickled / deep-copied alone) asked the member-level '
        'questions, a loaded lattice kept without its context, traversals right after upset_generalization, definitions exported, '
        'edited and exported again, take() variants used after their source was edited, several snapshots of one definition, '
        'str-subclass names with a display form of their own; generator proxies stop a run that yields more items than can exist. '
        'Concurrency is outside the properties (no schedules).')

def main():
    props = [json.loads(l) for l in open(os.path.join(ROOT, 'properties.jsonl'))]
    checks = []
    for p in props:
        pid = p['id']
        mod = importlib.import_module('rv.props.' + pid.lower())
        checks.append({
            'property_id': pid,
            'quick_cmd': f'./check {pid} --tier quick',
            'thorough_cmd': f'./check {pid} --tier thorough',
            'evidence_file': f'evidence/{pid}.json',
            'replay_cmd_template': f'./check {pid} --replay {{path}}',
            'engine': 'rv',
            'level_claimed': {'category': 'exploration',
                              'text': ('Runtime monitoring: the real code is driven by exhaustive-small, random, structured and hostile '
                                       'workloads while monitors attached to its functions judge every observed call/state against an '
                                       'independent oracle. ' + mod.META['rule'][:600]),
                              'design_ref': f'DESIGN.md section 2, {pid}'},
            'level_note': NOTE,
            'technique': TECH[pid],
        })
    baseline = json.load(open('/root/.vp/BASELINE.json'))['cmd'] if os.path.exists('/root/.vp/BASELINE.json') else \
        'cd /repo && /venv/bin/python -m pytest -ra -q -p no:cacheprovider --timeout=900 --continue-on-collection-errors --junitxml=<file>'
    m = {'version': 1,
         'setup_cmd': './check --selftest',
         'hooks': {'guard': 'CONCEPTS_VERIF',
                   'enable': 'no source hooks: monitors are attached from /verif/rv at import time by identity-patching the imported concepts package (rv/attach.py); CONCEPTS_VERIF=1 is set in every monitored child process',
                   'baseline_off_cmd': baseline,
                   'source_commits': [], 'add_only': True},
         'engines': [{'name': 'rv', 'path': 'rv/', 'serves_properties': [p['id'] for p in props],
                      'kind_free_text': 'runtime monitors (call monitors, recording proxies, invariant hooks, offline trace checkers) with reference models'}],
         'checks': checks,
         'notes': 'Exit codes: 0 held on everything observed (KNOWN-FINDING lines possible), 1 violation (VIOLATION property=<id> replay=<path>), 2 inconclusive. Env: VERIF_SEED, VERIF_TIER, VERIF_REPO, VERIF_JOBS.',
         'not_applicable': []}
    json.dump(m, open(os.path.join(ROOT, 'MANIFEST.json'), 'w'), indent=1, ensure_ascii=False)
    print('MANIFEST.json written with', len(checks), 'checks')

main()
