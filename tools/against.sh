#!/bin/bash
# tools/against.sh <seeded-id> <Cxx> [tier]  - run one check against a scratch copy of /repo with seeded/<id>/patch.diff applied
id=$1; prop=$2; tier=${3:-quick}
dst=$(mktemp -d /tmp/rvagainst-XXXXXX)
rsync -a --exclude .git --exclude htmlcov --exclude test-output --exclude __pycache__ --exclude '*.pyc' /repo/ $dst/
(cd $dst && patch -s -p1 < /verif/seeded/$id/patch.diff) || { echo "patch failed"; rm -rf $dst; exit 3; }
cd "$(dirname "$0")/.."
VERIF_REPO=$dst ./check $prop --tier $tier --quiet 2>&1 | grep -v '^WARNING conda' | cut -c1-260 | head -${LINES_MAX:-12}
echo "exit=${PIPESTATUS[0]} ($id vs $prop $tier)"
rm -rf $dst
