#!/usr/bin/env python3
"""Union of the code reach recorded in evidence/*.json: function lines of /repo/concepts that
no registered check reached in its last run (evidence only; guides where workloads are thin)."""
import glob, json, os, sys
ROOT = os.path.dirname(os.path.dirname(os.path.abspath(__file__)))


def expand(ranges):
    out = set()
    for r in ranges:
        a, _, b = r.partition('-')
        out.update(range(int(a), int(b or a) + 1))
    return out


never = {}
per = {}
for p in sorted(glob.glob(os.path.join(ROOT, 'evidence', 'C*.json'))):
    ev = json.load(open(p))
    cr = ev['coverage'].get('code_reach') or {}
    for f, rec in cr.get('files', {}).items():
        miss = expand(rec['not_reached'])
        never[f] = miss if f not in never else never[f] & miss
        per.setdefault(f, rec['function_lines'])
tot = sum(per.values())
left = sum(len(v) for v in never.values())
print(f'function lines: {tot}; reached by at least one check: {tot - left}; never reached: {left}')
for f, miss in sorted(never.items()):
    if miss:
        print(f, sorted(miss))
        if '-v' in sys.argv:
            src = open(os.path.join('/repo', f)).read().splitlines()
            for ln in sorted(miss):
                print(f'    {ln}: {src[ln - 1].rstrip()}')
