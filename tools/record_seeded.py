#!/usr/bin/env python3
"""Merge results of tools/seeded.py --json runs into seeded/<id>/meta.json and seeded/RESULTS.json.
Usage: tools/record_seeded.py RESULT.json [tier] [base_commit]"""
import json, os, sys
ROOT = os.path.dirname(os.path.dirname(os.path.abspath(__file__)))
res = json.load(open(sys.argv[1]))
tier = sys.argv[2] if len(sys.argv) > 2 else 'quick'
base = sys.argv[3] if len(sys.argv) > 3 else None
allp = os.path.join(ROOT, 'seeded', 'RESULTS.json')
allr = {r['id']: r for r in json.load(open(allp))} if os.path.exists(allp) else {}
for r in res:
    d = os.path.join(ROOT, 'seeded', r['id'])
    m = json.load(open(d + '/meta.json'))
    v = m.get('verified_by_harness_author', {})
    if 'tests_pass' in r:
        v.update({'patch_applies': r.get('applies'), 'tests_pass_with_patch': r.get('tests_pass'),
                  'demo_passes_without_patch': r.get('demo_clean_passes'),
                  'demo_fails_with_patch': r.get('demo_patched_fails')})
        v['ran'] = ['git apply patch.diff on a scratch copy of /repo (tools/seeded.py)',
                    'PYTHONPATH=<copy> /venv/bin/python -m pytest -q -p no:cacheprovider --no-cov -x  -> ' + str(r.get('tests_tail')),
                    'PYTHONPATH=<copy> /venv/bin/python demo.py on the clean copy (must exit 0) and on the patched copy (must fail)',
                    f"VERIF_REPO=<copy> ./check {m.get('property', r['id'][:3])} --tier {tier}"]
    v['quick_check_result'] = r.get('checks')
    v['caught_by'] = r.get('caught_by')
    v['tier'] = tier
    if base:
        v['base_commit_of_repo'] = base
    v.pop('not_caught_because', None) if r.get('caught_by') else None
    m['verified_by_harness_author'] = v
    json.dump(m, open(d + '/meta.json', 'w'), indent=1, ensure_ascii=False)
    allr[r['id']] = dict(allr.get(r['id'], {}), **r)
json.dump([allr[k] for k in sorted(allr)], open(allp, 'w'), indent=1, ensure_ascii=False)
print('recorded', len(res))
