#!/venv/bin/python
"""Run the pinned pytest suite (doctests included) with every monitor attached.
White-box tests that deliberately corrupt private state are deselected."""
import json, os, subprocess, sys, tempfile
ROOT = os.path.dirname(os.path.dirname(os.path.abspath(__file__)))
repo = os.path.realpath(os.environ.get('VERIF_REPO', '/repo'))
out = tempfile.mktemp(prefix='rvpytest-', suffix='.json')
env = dict(os.environ, PYTHONPATH=f'{repo}:{ROOT}', CONCEPTS_VERIF='1', RV_PYTEST_OUT=out,
           VERIF_REPO=repo, PYTHONHASHSEED='0', PYTHONDONTWRITEBYTECODE='1')
cmd = ['/venv/bin/python', '-m', 'pytest', '-q', '-p', 'no:cacheprovider', '--no-cov', '-p', 'rv.pytest_plugin',
       '--deselect', 'tests/test_lattices.py::test_eq_mapping', '--deselect', 'tests/test_lattices.py::test_eq_concepts',
       '--deselect', 'tests/test_lattices.py::test_concept_eq_neighors',
       '-o', 'junit_family=xunit2', '--basetemp', tempfile.mkdtemp(prefix='rvpytest-tmp-')]
p = subprocess.run(cmd, cwd=repo, env=env, capture_output=True, text=True)
print(p.stdout.strip().splitlines()[-1] if p.stdout.strip() else p.stderr[-500:])
res = json.load(open(out)); os.remove(out)
judged = {k: v for k, v in res['counters'].items() if k.startswith('judged')}
print('monitored events judged during the suite:', sum(judged.values()))
print('harness errors:', len(res['harness_errors']), [h['where'] + ' ' + str(h['error'])[:120] for h in res['harness_errors'][:5]])
by = {}
for v in res['violations']:
    by.setdefault(v['mechanism'], []).append(v)
for m, vs in by.items():
    print('FIRED', m, len(vs), 'x  e.g. in', vs[0]['case'], 'expected', json.dumps(vs[0]['expected'])[:200], 'observed', json.dumps(vs[0]['observed'])[:200])
print('total violations recorded:', res['n_violations'])
sys.exit(1 if res['n_violations'] or p.returncode else 0)
