#!/venv/bin/python
"""Apply each deliberate break from selfmut/mutants.json to a scratch copy of the
repository (never /repo itself) and run the quick checks of the properties it
should violate.  Usage: tools/mutate.py [--tests] [--only ID,...] [--props C01,...]

Scratch copies live under /tmp/rvmut-<pid>/ and are removed afterwards.
"""
import argparse, json, os, shutil, subprocess, sys, tempfile

ROOT = os.path.dirname(os.path.dirname(os.path.abspath(__file__)))
REPO = os.environ.get('VERIF_REPO', '/repo')


def main():
    ap = argparse.ArgumentParser()
    ap.add_argument('--tests', action='store_true', help='also run the pinned test suite on the mutant')
    ap.add_argument('--only')
    ap.add_argument('--props')
    ap.add_argument('--tier', default='quick')
    a = ap.parse_args()
    muts = json.load(open(os.path.join(ROOT, 'selfmut', 'mutants.json')))
    if a.only:
        muts = [m for m in muts if m['id'] in a.only.split(',')]
    base = tempfile.mkdtemp(prefix='rvmut-')
    summary = []
    try:
        for m in muts:
            dst = os.path.join(base, m['id'])
            shutil.copytree(REPO, dst, ignore=shutil.ignore_patterns('.git', 'htmlcov', 'test-output', '__pycache__', '*.pyc', '.coverage', 'docs/_build'))
            path = os.path.join(dst, m['file'])
            src = open(path).read()
            if src.count(m['old']) != 1:
                summary.append((m['id'], 'PATTERN-NOT-UNIQUE', src.count(m['old'])))
                shutil.rmtree(dst); continue
            open(path, 'w').write(src.replace(m['old'], m['new']))
            tests = None
            if a.tests:
                r = subprocess.run(['/venv/bin/python', '-m', 'pytest', '-q', '-p', 'no:cacheprovider', '--no-cov', '-x', '-q'],
                                   cwd=dst, capture_output=True, text=True, env=dict(os.environ, PYTHONPATH=dst))
                tests = 'tests-pass' if r.returncode == 0 else 'TESTS-FAIL: ' + r.stdout.strip().splitlines()[-1]
            props = a.props.split(',') if a.props else m['props']
            res = {}
            for p in props:
                r = subprocess.run([os.path.join(ROOT, 'check'), p, '--tier', a.tier, '--quiet'], capture_output=True, text=True,
                                   env=dict(os.environ, VERIF_REPO=dst))
                res[p] = {0: 'missed', 1: 'CAUGHT', 2: 'inconclusive'}.get(r.returncode, f'rc{r.returncode}')
                if r.returncode == 1:
                    mech = [l for l in r.stdout.splitlines() if 'mechanism=' in l and not l.startswith('KNOWN')][:2]
                    res[p] += ' ' + '; '.join(x.strip() for x in mech)
                elif r.returncode == 2:
                    res[p] += ' ' + ' | '.join(l[:200] for l in r.stdout.splitlines() if l.startswith('INCONCLUSIVE'))[:400]
            summary.append((m['id'], tests, res))
            print(m['id'], tests, json.dumps(res), flush=True)
            shutil.rmtree(dst)
    finally:
        shutil.rmtree(base, ignore_errors=True)
    missed = [s for s in summary if isinstance(s[2], dict) and not any(v.startswith('CAUGHT') for v in s[2].values())]
    print(f'{len(summary)} mutants, {len(missed)} not caught:', [s[0] for s in missed])
    return 1 if missed else 0


if __name__ == '__main__':
    sys.exit(main())
