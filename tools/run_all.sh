#!/bin/bash
# run every check of a tier sequentially; print one line per property
tier=${1:-quick}
cd "$(dirname "$0")/.."
rc_all=0
for p in ${PROPS:-C01 C02 C03 C04 C05 C06 C07 C08 C09 C10 C11 C12 C13 C14 C15 C16 C17 C18 C19 C20}; do
  s=$(date +%s)
  out=$(./check $p --tier $tier --quiet 2>&1); rc=$?
  e=$(( $(date +%s) - s ))
  echo "$p rc=$rc ${e}s :: $(echo "$out" | grep -E '^(RESULT|VIOLATION|INCONCLUSIVE|KNOWN)' | cut -c1-160 | tr '\n' '|')"
  [ $rc -ne 0 ] && rc_all=1
done
exit $rc_all
