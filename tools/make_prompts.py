#!/usr/bin/env python3
"""tools/make_prompts.py <round-no> <suffix> <Cxx,Cyy,...> [n-earlier]
Write /tmp/seed/prompts/<Cxx>-<suffix>.txt: the sub-agent prompt for one seeded change per
property.  The prompt contains the property text, how to run things, and short summaries of
the most recent earlier changes for that property (so the agent picks something else) -
nothing about /verif's checks.  An example is kept as seeded/PROMPT_round<no>_example_C07.txt
style file by the caller."""
import json, os, sys, glob

ROOT = os.path.dirname(os.path.dirname(os.path.abspath(__file__)))
rnd, suffix, props = sys.argv[1], sys.argv[2], sys.argv[3].split(',')
n_earlier = int(sys.argv[4]) if len(sys.argv) > 4 else 6
P = {}
for line in open(os.path.join(ROOT, 'properties.jsonl')):
    line = line.strip()
    if line:
        d = json.loads(line); P[d['id']] = d

TAKEN = ("one-shot iterators as arguments; labels repeated in an argument; caller edits of returned containers; "
         "integer hash collisions modulo 2**61-1; CRC-32 collisions; 63/64-bit word boundaries; lattices loaded "
         "with raw=True; python -O; bitset classes shared between contexts with equal labels; traversals or "
         "enumerations abandoned early; pickles from other processes; axes of several thousand members; "
         "subclass overrides of a single Concept method")

os.makedirs('/tmp/seed/prompts', exist_ok=True)
for pid in props:
    prop = dict(P[pid]); prop.pop('id', None)
    wt = f'/tmp/seed/wt{rnd}/{pid}'
    out = f'/tmp/seed/out/{pid}-{suffix}'
    earlier = []
    for d in sorted(glob.glob(os.path.join(ROOT, 'seeded', pid + '-*')), reverse=True)[:n_earlier]:
        try:
            s = json.load(open(os.path.join(d, 'meta.json'))).get('summary', '')
        except Exception:
            continue
        earlier.append('   - ' + ' '.join(s.split())[:330])
    text = f"""You are helping to evaluate a test/verification setup for the open-source Python library xflr6/concepts (Formal Concept Analysis). Your job: write ONE realistic code change (a "seeded defect") to the library, which breaks the semantic property quoted below, while the library still imports and its existing test suite still passes.

Your private scratch git worktree of the library is: {wt}
Work ONLY inside that directory and inside your output directory {out} (create it). Do not read or write anything under /verif or /repo, and do not look at other directories under /tmp/seed. Never commit, and never use `git stash` (the stash is shared between worktrees); use only `git apply` and `git checkout -- .`.

THE PROPERTY (id {pid}):
{json.dumps(prop, indent=1)}

How to run things (no network; do not install anything):
- tests:  cd {wt} && PYTHONPATH={wt} /venv/bin/python -m pytest -q -p no:cacheprovider --no-cov -x        (expect "301 passed, 5 skipped")
- a script against your worktree:  cd {wt} && PYTHONPATH={wt} /venv/bin/python your_script.py     (check `import concepts; concepts.__file__` is under {wt})

What the change must be:
1. A plausible edit a maintainer might really make (an optimisation, a refactoring, a cache, a fast path, a "clean-up", a new helper, a changed default) - not a comment saying "bug", not dead code obviously guarded by a magic constant with no rationale. It must leave the package importable and ALL existing tests passing.
2. It must make the library violate the property above for SOME inputs/histories/configurations, but it must need something specific to manifest: a multi-step sequence of operations, state carried from one call (or one object) to a later one, two cooperating edit sites that each look fine alone, an unusual input shape, an unusual argument type or parameter combination, a failure (exception) at a particular point followed by continued use. Ordinary use (the README examples, small random tables with a handful of queries) should NOT expose it at once. Prefer triggers that a thorough randomized differential tester working on thousands of small and medium tables would still be likely to miss.
3. Earlier changes for this property already exist; yours must use a clearly different mechanism AND a different kind of trigger than these:
{chr(10).join(earlier)}
   Also excluded as triggers (already used elsewhere): {TAKEN}.
   Prefer a change of the kind "two cooperating edit sites in different modules that each look fine alone", or one whose trigger is a HISTORY: the order in which two or three different public features are used on the same objects (e.g. a query before vs. after the lattice was first built; an export before a query; str()/repr()/hash()/== called on an object before it is used; a Definition edited after a Context was made from it; the same context queried through two different lattices; a second call with different optional parameters than the first), or a boundary of the library's own data (empty extent/intent, a single concept, a property shared by all objects, objects with identical rows, no objects or no properties where that is allowed).
4. Stay within what the property actually promises: the demonstration must show a violation of the quoted statement on input the statement covers (documented argument types, labels that exist in the context, etc.), not merely a changed behaviour on unsupported input.

Deliverables, in directory {out}/ :
- patch.diff : `git -C {wt} diff` of ONLY that change against the unmodified worktree .
- demo.py : a small standalone program (only stdlib + concepts) that exits 0 on the unmodified library and exits non-zero (assertion failure with a clear message) with the patch applied. It is run as `cd <tree> && PYTHONPATH=<tree> /venv/bin/python demo.py`. It must decide by comparing against something computed independently in the demo (brute force over the table), not against hard-coded library output. Keep its runtime under 2 minutes and memory under 2 GB.
- meta.json : {{"property": "{pid}", "summary": "...what the change does...", "mechanism": "...files/functions touched and why it looks innocent...", "needs": "...exactly what is needed for it to manifest, and why typical testing would miss it...", "tests_pass": true, "demo_fails_with_patch": true, "demo_passes_without_patch": true}}

Before finishing, VERIFY it yourself from a clean worktree state: apply the patch (`git -C {wt} apply {out}/patch.diff`), run the full test suite (must pass), run the demo (must fail), `git -C {wt} checkout -- .`, run the demo again (must pass). Leave the worktree clean at the end. Do not spend more than about 15 minutes. In your final message give one paragraph: what it is, what triggers it, and the verification results you observed."""
    open(f'/tmp/seed/prompts/{pid}-{suffix}.txt', 'w').write(text)
    print(pid, len(text))
