#!/bin/bash
# tools/eval_round.sh <suffix> [before-commit]
# Import /tmp/seed/out/C??-<suffix>/ into seeded/, evaluate against the checks of <before-commit>
# (default HEAD) without changing anything ("before"), print one line per seeded change.
suffix=$1; before=${2:-HEAD}
cd "$(dirname "$0")/.."
ids=""
for d in /tmp/seed/out/C??-$suffix; do
  id=$(basename $d)
  if [ -f $d/patch.diff ] && [ -f $d/demo.py ] && [ -f $d/meta.json ] && [ ! -d seeded/$id ]; then
    mkdir -p seeded/$id && cp $d/patch.diff $d/demo.py $d/meta.json seeded/$id/
  fi
  [ -d seeded/$id ] && ids="$ids,$id"
done
ids=${ids#,}
echo "round $suffix: $ids"
rm -rf /tmp/verif_before; git worktree add -q /tmp/verif_before $before
(cd /tmp/verif_before && tools/seeded.py --src /verif/seeded --only $ids --json /tmp/seed/round_${suffix}_before.json) | python3 -c "
import sys,json
for l in sys.stdin:
    try: r=json.loads(l)
    except Exception: print(l.strip()[:200]); continue
    ok = r.get('demo_clean_passes') and r.get('demo_patched_fails') and r.get('tests_pass') and r.get('applies')
    print('BEFORE', r['id'], 'valid' if ok else 'INVALID', r['caught_by'], {k:v[:90] for k,v in r['checks'].items()})
"
git worktree remove --force /tmp/verif_before
