#!/venv/bin/python
"""Evaluate seeded defects: for each directory with patch.diff/demo.py/meta.json
 1. confirm on a scratch copy of /repo that the patch applies, the pinned test suite
    still passes, the demo fails with the patch and passes without it;
 2. run the quick (or given tier) check of the target property (and optionally all
    properties) against the patched scratch copy (VERIF_REPO) and report.
Usage: tools/seeded.py [--src DIR]... [--all-props] [--tier quick] [--only ID,...] [--no-confirm]
Scratch copies live under /tmp/rvseed-<pid>/ and are removed afterwards."""
import argparse, json, os, shutil, subprocess, sys, tempfile, glob

ROOT = os.path.dirname(os.path.dirname(os.path.abspath(__file__)))
REPO = '/repo'
PY = '/venv/bin/python'
ALL = [f'C{i:02d}' for i in range(1, 21)]


def sh(cmd, **kw):
    return subprocess.run(cmd, capture_output=True, text=True, **kw)


def main():
    ap = argparse.ArgumentParser()
    ap.add_argument('--src', action='append')
    ap.add_argument('--all-props', action='store_true')
    ap.add_argument('--tier', default='quick')
    ap.add_argument('--only')
    ap.add_argument('--no-confirm', action='store_true')
    ap.add_argument('--json')
    a = ap.parse_args()
    srcs = a.src or [os.path.join(ROOT, 'seeded')]
    dirs = []
    for s in srcs:
        dirs += sorted(d for d in glob.glob(os.path.join(s, '*')) if os.path.exists(os.path.join(d, 'patch.diff')))
    if a.only:
        dirs = [d for d in dirs if os.path.basename(d) in a.only.split(',')]
    base = tempfile.mkdtemp(prefix='rvseed-')
    rows = []
    try:
        for d in dirs:
            name = os.path.basename(d)
            meta = json.load(open(os.path.join(d, 'meta.json'))) if os.path.exists(os.path.join(d, 'meta.json')) else {}
            prop = meta.get('property', name[:3])
            dst = os.path.join(base, name)
            shutil.copytree(REPO, dst, ignore=shutil.ignore_patterns('.git', 'htmlcov', 'test-output', '__pycache__', '*.pyc', '.coverage', 'test-log.txt'))
            row = {'id': name, 'property': prop}
            env = dict(os.environ, PYTHONPATH=dst, PYTHONDONTWRITEBYTECODE='1')
            demo = os.path.join(d, 'demo.py')
            if not a.no_confirm:
                r0 = sh([PY, demo], cwd=dst, env=env)
                row['demo_clean_passes'] = r0.returncode == 0
            r = sh(['git', 'apply', '--unsafe-paths', '--directory=' + dst, os.path.join(d, 'patch.diff')], cwd='/')
            if r.returncode:
                r = sh(['patch', '-p1', '-d', dst, '-i', os.path.join(d, 'patch.diff')])
            row['applies'] = r.returncode == 0
            if not row['applies']:
                row['error'] = (r.stderr or r.stdout)[-300:]
                rows.append(row); print(json.dumps(row)); shutil.rmtree(dst); continue
            if not a.no_confirm:
                r1 = sh([PY, demo], cwd=dst, env=env)
                row['demo_patched_fails'] = r1.returncode != 0
                t = sh([PY, '-m', 'pytest', '-q', '-p', 'no:cacheprovider', '--no-cov', '-x'], cwd=dst, env=env)
                row['tests_pass'] = t.returncode == 0
                row['tests_tail'] = t.stdout.strip().splitlines()[-1] if t.stdout.strip() else ''
            props = ALL if a.all_props else [prop]
            res = {}
            for p in props:
                r = sh([os.path.join(ROOT, 'check'), p, '--tier', a.tier, '--quiet'], env=dict(os.environ, VERIF_REPO=dst))
                tag = {0: 'missed', 1: 'CAUGHT', 2: 'inconclusive'}.get(r.returncode, f'rc{r.returncode}')
                mech = [l.strip() for l in r.stdout.splitlines() if 'mechanism=' in l and not l.startswith('KNOWN')][:3]
                res[p] = tag + (' ' + ' ; '.join(mech) if mech else '')
                if r.returncode == 2:
                    res[p] += ' ' + ' | '.join(l[:160] for l in r.stdout.splitlines() if l.startswith('INCONCLUSIVE'))[:300]
            row['checks'] = res
            row['caught_by'] = [p for p, v in res.items() if v.startswith('CAUGHT')]
            rows.append(row)
            print(json.dumps(row, ensure_ascii=False), flush=True)
            shutil.rmtree(dst)
    finally:
        shutil.rmtree(base, ignore_errors=True)
    if a.json:
        json.dump(rows, open(a.json, 'w'), indent=1, ensure_ascii=False)
    missed = [r['id'] for r in rows if not r.get('caught_by')]
    print(f'{len(rows)} seeded defects, {len(missed)} not caught by the checks run: {missed}')


if __name__ == '__main__':
    main()
