#!/bin/bash
# quick tier over several VERIF_SEED values, each from a fresh process
cd "$(dirname "$0")/.."
tier=${TIER:-quick}
for seed in ${SEEDS:-1 2 3 7 11}; do
  for p in C01 C02 C03 C04 C05 C06 C07 C08 C09 C10 C11 C12 C13 C14 C15 C16 C17 C18 C19 C20; do
    out=$(VERIF_SEED=$seed ./check $p --tier $tier --quiet 2>&1); rc=$?
    [ $rc -ne 0 ] && echo "seed=$seed $p rc=$rc :: $(echo "$out" | grep -E '^(VIOLATION|INCONCLUSIVE|  monitor)' | cut -c1-300 | tr '\n' '|')"
  done
  echo "seed=$seed done"
done
